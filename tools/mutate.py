#!/venv/bin/python
"""Operator-level mutation pass over the repository, used as a sensitivity measure for the checks.

  stage A  every single-token mutant is run against the repository's own test suite (in scratch copies,
           in parallel); mutants the suite kills are of no interest here.
  stage B  mutants that SURVIVE the suite are run against the quick tier of the checks mapped to the
           mutated file (VERIF_REPO = scratch copy); the first check that exits 1 kills the mutant.

usage: tools/mutate.py generate|stageA|stageB [--limit N] [--out DIR]
The report (JSON + markdown) is written to <out> (default /verif/sensitivity).
"""
import argparse
import io
import json
import multiprocessing
import os
import random
import shutil
import subprocess
import sys
import tokenize

VERIF = os.path.dirname(os.path.dirname(os.path.abspath(__file__)))
REPO = "/repo"
FILES = {
    "bibtexparser/splitter.py": ["C03", "C02", "C01", "C04", "C09", "C05"],
    "bibtexparser/library.py": ["C08", "C09", "C16"],
    "bibtexparser/model.py": ["C19", "C08", "C09", "C07"],
    "bibtexparser/writer.py": ["C06", "C05", "C01"],
    "bibtexparser/entrypoint.py": ["C20", "C05", "C07"],
    "bibtexparser/exceptions.py": ["C01", "C07"],
    "bibtexparser/middlewares/names.py": ["C13", "C12", "C14"],
    "bibtexparser/middlewares/enclosing.py": ["C10", "C05"],
    "bibtexparser/middlewares/middleware.py": ["C20", "C07"],
    "bibtexparser/middlewares/month.py": ["C15"],
    "bibtexparser/middlewares/sorting_blocks.py": ["C16", "C07"],
    "bibtexparser/middlewares/sorting_entry_fields.py": ["C17"],
    "bibtexparser/middlewares/fieldkeys.py": ["C17"],
    "bibtexparser/middlewares/interpolate.py": ["C11", "C07"],
    "bibtexparser/middlewares/latex_encoding.py": ["C18"],
    "bibtexparser/middlewares/parsestack.py": ["C20", "C05", "C07"],
}
OPS = {"==": "!=", "!=": "==", "<": "<=", "<=": "<", ">": ">=", ">=": ">", "+": "-", "-": "+", "+=": "-=", "-=": "+="}
NAMES = {"and": "or", "or": "and", "True": "False", "False": "True", "start": "end", "end": "start", "startswith": "endswith", "endswith": "startswith",
         "append": "extend", "is": "is not", "upper": "lower", "lower": "upper", "isupper": "islower", "any": "all", "all": "any", "min": "max", "max": "min",
         "break": "continue", "continue": "break", "lstrip": "rstrip", "rstrip": "lstrip"}


def mutants_of(path):
    src = open(os.path.join(REPO, path)).read()
    out = []
    toks = list(tokenize.generate_tokens(io.StringIO(src).readline))
    depth_f = 0
    prev = None
    for i, t in enumerate(toks):
        name = tokenize.tok_name[t.type]
        if name == "FSTRING_START":
            depth_f += 1
        elif name == "FSTRING_END":
            depth_f -= 1
        if depth_f or name in ("STRING", "COMMENT", "FSTRING_MIDDLE"):
            prev = t
            continue
        line = t.line
        if line.lstrip().startswith(("from ", "import ", "@", "def ", "class ")) or "logger." in line or "raise " in line and t.type == tokenize.NAME:
            prev = t
            continue
        new = None
        if t.type == tokenize.OP and t.string in OPS:
            # skip unary minus in slices like [1:-1]? keep: off-by-one slips are the point
            new = OPS[t.string]
        elif t.type == tokenize.NAME and t.string in NAMES:
            if t.string in ("start", "end", "append", "upper", "lower", "startswith", "endswith", "isupper", "lstrip", "rstrip") and not (prev and prev.string == "."):
                new = None
            elif t.string == "is" and i + 1 < len(toks) and toks[i + 1].string == "not":
                new = None
            elif t.string in ("any", "all", "min", "max") and not (i + 1 < len(toks) and toks[i + 1].string == "("):
                new = None
            else:
                new = NAMES[t.string]
        elif t.type == tokenize.NAME and t.string == "not" and not (prev and prev.string == "is"):
            new = ""
        elif t.type == tokenize.NUMBER and t.string.isdigit():
            new = str(int(t.string) + 1)
        if new is not None:
            out.append({"file": path, "line": t.start[0], "col": t.start[1], "old": t.string, "new": new, "src": line.strip()[:120]})
        prev = t
    return out


def apply_mutant(root, m):
    p = os.path.join(root, m["file"])
    lines = open(p).read().split("\n")
    ln = lines[m["line"] - 1]
    assert ln[m["col"] : m["col"] + len(m["old"])] == m["old"], (m, ln)
    lines[m["line"] - 1] = ln[: m["col"]] + m["new"] + ln[m["col"] + len(m["old"]) :]
    open(p, "w").write("\n".join(lines))


def restore(root, m):
    shutil.copy(os.path.join(REPO, m["file"]), os.path.join(root, m["file"]))


def scratch(i):
    root = f"/tmp/mut_scratch_{i}"
    if os.path.isdir(root):
        shutil.rmtree(root)
    shutil.copytree(REPO, root, ignore=shutil.ignore_patterns(".git", "__pycache__", "*.pyc", "docs", "examples"))
    return root


def _stage_a_worker(args):
    idx, chunk = args
    root = scratch(f"a{idx}")
    res = []
    env = dict(os.environ, PYTHONPATH=root, PYTHONDONTWRITEBYTECODE="1")
    for m in chunk:
        apply_mutant(root, m)
        try:
            p = subprocess.run([sys.executable, "-B", "-m", "pytest", "-q", "-x", "-p", "no:cacheprovider"], cwd=root, env=env, capture_output=True, text=True, timeout=300)
            survived = p.returncode == 0
        except subprocess.TimeoutExpired:
            survived = False
        restore(root, m)
        res.append(dict(m, suite="survived" if survived else "killed"))
    shutil.rmtree(root, ignore_errors=True)
    return res


def stage_a(out):
    muts = []
    for f in FILES:
        muts += mutants_of(f)
    print(len(muts), "mutants")
    n = 14
    chunks = [(i, muts[i::n]) for i in range(n)]
    with multiprocessing.get_context("fork").Pool(n) as pool:
        res = [r for part in pool.map(_stage_a_worker, chunks) for r in part]
    res.sort(key=lambda m: (m["file"], m["line"], m["col"]))
    json.dump(res, open(os.path.join(out, "mutants_stageA.json"), "w"), indent=0)
    print("survive the repository's suite:", sum(r["suite"] == "survived" for r in res), "of", len(res))


def stage_b(out, limit, seed=1):
    res = json.load(open(os.path.join(out, "mutants_stageA.json")))
    surv = [r for r in res if r["suite"] == "survived"]
    rnd = random.Random(seed)
    rnd.shuffle(surv)
    # stratify: round-robin over files
    by_file = {}
    for r in surv:
        by_file.setdefault(r["file"], []).append(r)
    picked = []
    while len(picked) < limit and any(by_file.values()):
        for f in sorted(by_file):
            if by_file[f] and len(picked) < limit:
                picked.append(by_file[f].pop())
    done_path = os.path.join(out, "mutants_stageB.json")
    done = json.load(open(done_path)) if os.path.exists(done_path) else []
    seen = {(d["file"], d["line"], d["col"], d["new"]) for d in done}
    root = scratch("b")
    for k, m in enumerate(picked):
        if (m["file"], m["line"], m["col"], m["new"]) in seen:
            continue
        apply_mutant(root, m)
        killer = None
        sig = ""
        for prop in FILES[m["file"]]:
            env = dict(os.environ, VERIF_REPO=root)
            p = subprocess.run(["./check", prop, "--tier", "quick"], cwd=VERIF, env=env, capture_output=True, text=True)
            if p.returncode == 1:
                killer = prop
                for l in p.stdout.splitlines():
                    if "signature=" in l:
                        sig = l.split("signature=")[1].split()[0]
                        break
                break
            if p.returncode == 2:
                killer = None
                sig = "harness-error:" + prop + ":" + p.stderr.strip().splitlines()[-1][:200] if p.stderr.strip() else "harness-error:" + prop
                break
        restore(root, m)
        done.append(dict(m, killed_by=killer, signature=sig))
        json.dump(done, open(done_path, "w"), indent=0)
        print(k, m["file"], m["line"], repr(m["old"]), "->", repr(m["new"]), "|", m["src"][:60], "=>", killer or ("SURVIVED " + sig), flush=True)
    shutil.rmtree(root, ignore_errors=True)
    subprocess.run(["git", "checkout", "-q", "--", "evidence"], cwd=VERIF)


def main():
    ap = argparse.ArgumentParser()
    ap.add_argument("cmd", choices=["generate", "stageA", "stageB"])
    ap.add_argument("--limit", type=int, default=120)
    ap.add_argument("--out", default=os.path.join(VERIF, "sensitivity"))
    a = ap.parse_args()
    os.makedirs(a.out, exist_ok=True)
    if a.cmd == "generate":
        n = 0
        for f in FILES:
            ms = mutants_of(f)
            n += len(ms)
            print(f, len(ms))
        print(n)
    elif a.cmd == "stageA":
        stage_a(a.out)
    else:
        stage_b(a.out, a.limit)


if __name__ == "__main__":
    main()
