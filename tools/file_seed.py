#!/venv/bin/python
"""Confirm a seeded change and file it under /verif/seeded/<name>/.

usage: tools/file_seed.py <name> <patch.diff> <demo.py> <meta.json> <prop> [<prop> ...]

Steps (all in a scratch worktree of /repo HEAD under /tmp, removed afterwards):
  1. the patch applies; 2. the repository's test suite still passes with it; 3. the demo exits 1 with the
  patch and 0 without; 4. each named check is run with VERIF_REPO pointing at the patched copy (quick tier).
Writes seeded/<name>/{patch.diff, demo.py, meta.json}.  Step 4 writes its evidence to a scratch directory (VERIF_EVIDENCE_DIR), never to /verif/evidence.
"""
import json
import os
import shutil
import subprocess
import sys

VERIF = os.path.dirname(os.path.dirname(os.path.abspath(__file__)))


def sh(cmd, cwd=None, env=None):
    p = subprocess.run(cmd, shell=True, cwd=cwd, env=env, capture_output=True, text=True)
    return p.returncode, (p.stdout + p.stderr)


def main():
    name, patch, demo, meta, *props = sys.argv[1:]
    patch, demo, meta = map(os.path.abspath, (patch, demo, meta))
    wt = f"/tmp/wt_seed_{os.getpid()}"
    rc, out = sh(f"git worktree add -q --detach {wt} HEAD", cwd="/repo")
    if rc:
        print(out)
        return 2
    result = {}
    try:
        rc, out = sh(f"git apply {patch}", cwd=wt)
        if rc:
            print("PATCH DOES NOT APPLY\n" + out)
            return 3
        env = dict(os.environ, PYTHONPATH=wt)
        rc, out = sh("/venv/bin/python -m pytest -q -p no:cacheprovider 2>&1 | tail -1", cwd=wt, env=env)
        result["repo_tests_with_patch"] = out.strip()
        rc1, _ = sh(f"/venv/bin/python {demo}", cwd=wt, env=env)
        # (not `git stash`: the stash is shared by all worktrees of a repository, so parallel runs would swap patches)
        sh(f"git apply -R {patch}", cwd=wt)
        rc0, _ = sh(f"/venv/bin/python {demo}", cwd=wt, env=env)
        rc_re, out_re = sh(f"git apply {patch}", cwd=wt)
        if rc_re:
            print("PATCH COULD NOT BE RE-APPLIED\n" + out_re)
            return 3
        result["demo_exit_with_patch"] = rc1
        result["demo_exit_without_patch"] = rc0
        head = sh("git rev-parse --short HEAD", cwd="/repo")[1].strip()
        result["repo_head"] = head
        checks = {}
        for p in props:
            env2 = dict(os.environ, VERIF_REPO=wt, VERIF_EVIDENCE_DIR=wt + "_ev")
            rc, out = sh(f"./check {p} --tier quick", cwd=VERIF, env=env2)
            lines = [l for l in out.splitlines() if l.startswith("VIOLATION") or "sub-check=" in l or "HARNESS" in l]
            checks[p] = {"exit": rc, "detected": rc == 1, "lines": lines[:6]}
            if rc == 1:
                # keep the (shrunk) failing inputs as regression replays of the replay tier
                import glob
                import re as _re

                rd = os.path.join(VERIF, "replays", p)
                os.makedirs(rd, exist_ok=True)
                kept = 0
                for l in out.splitlines():
                    m_ = _re.match(r"VIOLATION property=\S+ replay=(\S+)", l)
                    if m_ and os.path.exists(m_.group(1)) and kept < 3:
                        rec = json.load(open(m_.group(1)))
                        if len(json.dumps(rec["input"])) > 20000 or rec["sub"].startswith("replay"):
                            continue
                        kept += 1
                        json.dump({"property": p, "sub": rec["sub"], "input": rec["input"], "origin": f"failing input found against seeded change {name} ({rec.get('signature', '')})"},
                                  open(os.path.join(rd, f"{name}-{kept}.json"), "w"), indent=1)
            print(p, "exit", rc, *lines[:4], sep="\n   ")
        result["checks_quick"] = checks
    finally:
        sh(f"git worktree remove --force {wt}", cwd="/repo")
        shutil.rmtree(wt + "_ev", ignore_errors=True)
    ok = "passed" in result["repo_tests_with_patch"] and "failed" not in result["repo_tests_with_patch"] and result["demo_exit_with_patch"] == 1 and result["demo_exit_without_patch"] == 0
    print(json.dumps({k: v for k, v in result.items() if k != "checks_quick"}))
    if not ok:
        print("NOT CONFIRMED - not filed")
        return 4
    d = os.path.join(VERIF, "seeded", name)
    os.makedirs(d, exist_ok=True)
    shutil.copy(patch, os.path.join(d, "patch.diff"))
    shutil.copy(demo, os.path.join(d, "demo.py"))
    m = json.load(open(meta))
    m["confirmed"] = result
    m["what_i_ran"] = (
        "tools/file_seed.py: git worktree of /repo HEAD under /tmp; git apply patch.diff; repo test suite; demo.py with and "
        "without the patch; ./check <prop> --tier quick with VERIF_REPO=<patched worktree>; worktree removed"
    )
    m["caught_by"] = sorted(p for p, c in result["checks_quick"].items() if c["detected"])
    # harvested replay inputs must pass on the unchanged tree (e.g. not be an instance of a known finding)
    import glob

    for f in glob.glob(os.path.join(VERIF, "replays", "*", name + "-*.json")):
        prop = os.path.basename(os.path.dirname(f))
        rc, _ = sh(f"./check {prop} --replay {f}", cwd=VERIF)
        if rc != 0:
            os.remove(f)
    json.dump(m, open(os.path.join(d, "meta.json"), "w"), indent=1)
    print("filed", d, "caught_by", m["caught_by"])
    return 0


if __name__ == "__main__":
    sys.exit(main())
