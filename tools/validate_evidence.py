#!/opt/veriftools/pyvenv/bin/python
import json, sys, glob, jsonschema
schema = json.load(open("/root/.vp/EVIDENCE.schema.json"))
bad = 0
for p in sorted(glob.glob("/verif/evidence/C*.json")):
    try:
        jsonschema.validate(json.load(open(p)), schema)
        print("ok ", p)
    except Exception as e:
        bad += 1
        print("BAD", p, str(e)[:300])
sys.exit(1 if bad else 0)
