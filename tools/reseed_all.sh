#!/bin/sh
# Re-runs every filed seeded change against the current checks (refreshes meta.json, harvests replay inputs),
# then verifies that every replay passes on the unchanged tree.
cd "$(dirname "$0")/.."
for D in seeded/*/; do
  N=$(basename $D)
  PROPS=$(/venv/bin/python -c "
import json; m=json.load(open('$D/meta.json')); print(' '.join(sorted(set([m['property']]+list(m['confirmed']['checks_quick'])))))")
  cp $D/patch.diff /tmp/rs_patch.diff; cp $D/demo.py /tmp/rs_demo.py; cp $D/meta.json /tmp/rs_meta.json
  tools/file_seed.py $N /tmp/rs_patch.diff /tmp/rs_demo.py /tmp/rs_meta.json $PROPS 2>&1 | grep -E "^filed|NOT|DOES NOT"
done
for P in C01 C02 C03 C04 C05 C06 C07 C08 C09 C10 C11 C12 C13 C14 C15 C16 C17 C18 C19 C20; do
  for F in replays/$P/*.json; do [ -f "$F" ] || continue; ./check $P --replay $F >/dev/null 2>&1 || echo "REPLAY FAILS ON UNCHANGED TREE: $F"; done
done
