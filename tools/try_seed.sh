#!/bin/sh
# usage: tools/try_seed.sh <patch.diff> <demo.py> <prop> [more props...]
# Applies the patch to a scratch worktree of /repo HEAD, runs the repo's tests, the demo and the given checks against it.
PATCH=$(realpath "$1"); DEMO=$(realpath "$2"); shift 2
WT=/tmp/wt_try_$$
cd /repo && git worktree add -q --detach $WT HEAD || exit 2
cd $WT
if ! git apply "$PATCH"; then echo "PATCH DOES NOT APPLY"; cd /repo; git worktree remove --force $WT; exit 3; fi
echo "--- repo tests with patch:"; PYTHONPATH=$WT /venv/bin/python -m pytest -q -p no:cacheprovider 2>&1 | tail -1
echo "--- demo with patch:"; PYTHONPATH=$WT /venv/bin/python "$DEMO" >/dev/null 2>&1; echo "demo exit=$?"
git checkout -q -- . ; echo "--- demo without patch:"; PYTHONPATH=$WT /venv/bin/python "$DEMO" >/dev/null 2>&1; echo "demo exit=$?"
git apply "$PATCH"
cd /verif
for P in "$@"; do
  echo "--- check $P against patched copy:"
  VERIF_REPO=$WT ./check $P --tier quick 2>&1 | grep -E "VIOLATION|sub-check|HARNESS|tier=" | head -8
done
cd /repo && git worktree remove --force $WT
# evidence files were overwritten by runs against the scratch copy: the caller re-runs the checks on /repo
