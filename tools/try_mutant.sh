#!/bin/sh
# usage: tools/try_mutant.sh <name> <python-edit-script> <prop> [<prop> ...]
# The edit script is a Python file run with cwd = a scratch worktree of /repo HEAD (it edits files under bibtexparser/).
# Prints: repo-suite result with the edit, then per check the exit code and the first violation lines.
# The scratch worktree is removed afterwards; evidence goes to a scratch directory (never /verif/evidence).
NAME=$1; EDIT=$(realpath "$2"); shift 2
WT=/tmp/wt_mut_${NAME}_$$
cd /repo && git worktree add -q --detach $WT HEAD || exit 2
cd $WT
if ! /venv/bin/python "$EDIT"; then echo "$NAME: EDIT FAILED"; cd /repo; git worktree remove --force $WT; exit 3; fi
if git diff --quiet; then echo "$NAME: EDIT CHANGED NOTHING"; cd /repo; git worktree remove --force $WT; exit 3; fi
T=$(PYTHONPATH=$WT /venv/bin/python -m pytest -q -p no:cacheprovider -x 2>&1 | tail -1)
echo "$NAME: repo suite: $T"
cd /verif
for P in "$@"; do
  OUT=$(VERIF_REPO=$WT VERIF_EVIDENCE_DIR=/tmp/ev_mut_$$ ./check $P --tier quick 2>&1); RC=$?
  echo "$NAME: $P exit=$RC $(echo "$OUT" | grep -E 'sub-check=' | head -3 | tr '\n' ';')"
done
cd /repo && git worktree remove --force $WT
rm -rf /tmp/ev_mut_$$
