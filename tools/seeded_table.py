#!/venv/bin/python
"""Prints a markdown table of the seeded changes (seeded/*/meta.json) and which checks caught them."""
import glob, json, os
rows = []
for d in sorted(glob.glob(os.path.join(os.path.dirname(os.path.dirname(os.path.abspath(__file__))), "seeded", "*"))):
    mp = os.path.join(d, "meta.json")
    if not os.path.exists(mp):
        continue
    m = json.load(open(mp))
    det = []
    for p, c in sorted(m["confirmed"]["checks_quick"].items()):
        sig = ""
        for l in c["lines"]:
            if "signature=" in l:
                sig = l.split("signature=")[1].split()[0]
                break
        det.append(f"{p}{' (' + sig + ')' if c['detected'] else ' (missed)'}")
    rows.append((os.path.basename(d), m["property"], m["summary"].replace("|", "/")[:160], m["needs"].replace("|", "/")[:200], "; ".join(det)))
print("| seeded change | breaks | what was changed | needs | quick-tier checks run against it |")
print("|---|---|---|---|---|")
for r in rows:
    print("| " + " | ".join(r) + " |")
print(f"\n{len(rows)} seeded changes; caught by at least one check: {sum(1 for r in rows if '(missed)' not in r[4] or any('(missed)' not in x for x in r[4].split('; ')))}")
