#!/bin/sh
# usage: tools/run_some.sh <tier> <seed> <prop> [<prop> ...]
TIER=$1; SEED=$2; shift 2
./setup.sh >/dev/null 2>&1
for P in "$@"; do
  OUT=$(VERIF_SEED=$SEED ./check $P --tier $TIER 2>&1); RC=$?
  echo "seed=$SEED $P rc=$RC $(echo "$OUT" | grep -E "tier=" | tail -1)"
  if [ $RC -ne 0 ]; then echo "$OUT" | grep -vE "^KNOWN" | head -12; fi
done
