#!/venv/bin/python
"""Regenerates /verif/MANIFEST.json from the table below (kept as code so that the manifest is
always valid and in step with the checks that exist).  Validates against the schema."""
import json
import os
import sys

HERE = os.path.dirname(os.path.dirname(os.path.abspath(__file__)))

# property id -> (technique, level text, level note, DESIGN section)
CHECKS = {}


def chk(pid, technique, text, note, ref):
    CHECKS[pid] = dict(technique=technique, text=text, note=note, ref=ref)


chk(
    "C15",
    "bounded-exhaustive enumeration of every month spelling x middleware pair against a table oracle + seeded Hypothesis search over Unicode/ints",
    "Exploration: the whole finite space named in the property (12 months x int / decimal strings with leading zeros / every letter-case variant of abbreviation and full name x 3 middlewares + 9 ordered pairs x in-place and copy mode) is enumerated completely against a table written from the statement, so the mapping and composition clauses are decided, not sampled; the unchanged/no-exception clause over arbitrary values is searched with seeded Hypothesis text (all Unicode digit categories, near-miss spellings, arbitrary ints, oversized digit strings).",
    "Trusted: the 12-name table in pbt/props/C15.py (written from the statement, not imported); identity/type comparison; strings of non-ASCII digit characters are only required not to raise.",
    "DESIGN.md 4 C15",
)

ALL = ["C%02d" % i for i in range(1, 21)]
NOT_YET = "check not built yet in this revision of /verif (see DESIGN.md section 4 for its design); not claimed"


def main():
    checks = []
    for pid in ALL:
        if pid not in CHECKS:
            continue
        c = CHECKS[pid]
        checks.append(
            dict(
                property_id=pid,
                quick_cmd=f"./check {pid} --tier quick",
                thorough_cmd=f"./check {pid} --tier thorough",
                evidence_file=f"/verif/evidence/{pid}.json",
                replay_cmd_template=f"./check {pid} --replay {{path}}",
                engine="pbt",
                level_claimed=dict(category="exploration", text=c["text"], design_ref=c["ref"]),
                level_note=c["note"],
                technique=c["technique"],
            )
        )
    man = dict(
        version=1,
        setup_cmd="./setup.sh",
        hooks=dict(
            guard="SCIUNTO_ORG_PYTHON_BIBTEXPARSER_VERIF",
            enable="no hooks exist: every property is observable through the public API; the checks import the working tree at /repo directly (sys.path[0]=/repo, no build step, bytecode writing disabled)",
            baseline_off_cmd="cd /repo && /venv/bin/python -m pytest -ra -q -p no:cacheprovider",
            source_commits=[],
            add_only=True,
        ),
        engines=[
            dict(
                name="pbt",
                path="/verif/check",
                serves_properties=sorted(CHECKS),
                kind_free_text="property-based testing: bounded-exhaustive token/word enumeration, seeded Hypothesis (incl. rule-based state machines), explicit oracles (reference implementations, constructive ground truth, round trips, metamorphic relations), 16-way process pool",
            )
        ],
        checks=checks,
        notes="Runner: ./check <id> --tier quick|thorough ; VERIF_SEED and VERIF_TIER honoured; exit 0/1/2 as described in DESIGN.md 2.4. Known findings: /verif/known_findings.json. VERIF_REPO=<dir> points the checks at a scratch copy of the repository (used only for sensitivity runs; default /repo).",
        not_applicable=[dict(property_id=p, reason=NOT_YET) for p in ALL if p not in CHECKS],
    )
    path = os.path.join(HERE, "MANIFEST.json")
    with open(path, "w") as f:
        json.dump(man, f, indent=1)
        f.write("\n")
    try:
        import jsonschema

        schema = json.load(open("/root/.vp/MANIFEST.schema.json"))
        jsonschema.validate(man, schema)
        print("MANIFEST.json valid;", len(checks), "checks")
    except ImportError:
        print("MANIFEST.json written (jsonschema not importable here, not validated);", len(checks), "checks")


if __name__ == "__main__":
    sys.exit(main())
