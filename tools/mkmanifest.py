#!/venv/bin/python
"""Regenerates /verif/MANIFEST.json from the table below (kept as code so that the manifest is
always valid and in step with the checks that exist).  Validates against the schema."""
import json
import os
import sys

HERE = os.path.dirname(os.path.dirname(os.path.abspath(__file__)))

# property id -> (technique, level text, level note, DESIGN section)
CHECKS = {}


def chk(pid, technique, text, note, ref):
    CHECKS[pid] = dict(technique=technique, text=text, note=note, ref=ref)


chk(
    "C15",
    "bounded-exhaustive enumeration of every month spelling x middleware pair against a table oracle + seeded Hypothesis search over Unicode/ints",
    "Exploration: the whole finite space named in the property (12 months x int / decimal strings with leading zeros / every letter-case variant of abbreviation and full name x 3 middlewares + 9 ordered pairs x in-place and copy mode) is enumerated completely against a table written from the statement, so the mapping and composition clauses are decided, not sampled; the unchanged/no-exception clause over arbitrary values is searched with seeded Hypothesis text (all Unicode digit categories, near-miss spellings, arbitrary ints, oversized digit strings).",
    "Trusted: the 12-name table in pbt/props/C15.py (written from the statement, not imported); identity/type comparison; strings of non-ASCII digit characters are only required not to raise.",
    "DESIGN.md 4 C15",
)

chk(
    "C12",
    "bounded-exhaustive token and frame enumeration + seeded Hypothesis author lists + coverage-guided fuzzing (atheris, oracle inside the target); conservation/idempotence invariants and differential against an independent word-based reference splitter",
    "Exploration: every string spelled by <= 5 (quick) / <= 6 (thorough) tokens of a 16-token alphabet covering every state of the and-scanner (words, and/And/AND, partial an/d, blanks, tab, newline, '~', braces, comma, escapes, lone backslash) is checked for conservation and idempotence, and - when brace-balanced - for equality with an independent reference splitter that was first validated on the repository's 44 BibTeX-derived cases; token sequences inside five frames, long random author lists and the SeparateCoAuthors/MergeCoAuthors middlewares (default and custom name_fields, in-place and copy, fresh and pre-used instances) are searched; one worker interleaves the splitter with the name parser of the same module; an atheris campaign runs the same oracle inside the target.",
    "Trusted: pbt/refnames.py split_names (word-based reference), the conservation regex. Exact rule only on brace-balanced input, as the property states.",
    "DESIGN.md 4 C12",
)
chk(
    "C13",
    "bounded-exhaustive token- and word-level enumeration of names + seeded Hypothesis + coverage-guided fuzzing (atheris, oracle inside the target); differential against an executable transcription of BibTeX's name rules validated on the repo corpus; conservation and history-independence invariants",
    "Exploration: every name of <= 5/6 tokens over a 13-token alphabet and every name of 1..4/5 words over 8 word classes with every separator choice (<= 2 commas) is compared with an executable transcription of the First/von/Last/Jr rules of the statement (validity verdict and the four lists) that is first validated on the repository's 149+11 BibTeX-derived cases; conservation per comma section is checked independently of the reference; the returned NameParts is altered and the call repeated (results must not be shared between calls); SplitNameParts is checked to turn invalid names into a MiddlewareErrorBlock retaining the entry; an atheris campaign runs the same oracle inside the target.",
    "Trusted: pbt/refnames.py tokenize_name/word_case/parse_name. Word case is left unspecified (partition not compared) for shapes the statement does not define (special-character look-alikes nested in ordinary groups etc.).",
    "DESIGN.md 4 C13",
)
chk(
    "C14",
    "round-trip (inverse pair) over bounded-exhaustive word/token enumerations and seeded Hypothesis person lists, through the functions, the four middlewares and the full parse/write/parse stack",
    "Exploration: for every in-domain author value (domain decided by the reference tokeniser: valid names, non-empty Last, no word ending in an odd number of backslashes, no bare 'and') split+parse, merge last-name-first, join and split+parse again must give the same persons and parts; enumerated over all token sequences <= 5/6 and all word sequences <= 4/5 (+1 with reduced separators), random lists of 1-6 persons, the four middlewares on Library objects and parse_string(append_middleware)/write_string(prepend_middleware)/parse_string with braced and quoted values.",
    "Trusted: the domain predicate (pbt/refnames.py); known finding F-20 (merged value ending in a backslash) is excluded by a predicate and reported as KNOWN-FINDING.",
    "DESIGN.md 4 C14",
)

chk(
    "C08",
    "model-based testing of call histories: bounded-exhaustive operation sequences, seeded Hypothesis operation lists and a Hypothesis rule-based state machine against a reference model of the library",
    "Exploration: every history of depth <= 3 (quick) / <= 4 (thorough) over 48 add/remove/replace operations on a reduced universe of colliding blocks, plus random histories of up to 30 operations over a 14-block universe (entries/strings with keys a, b, A and the empty key, zero-field entries, preamble, both comment kinds, failed and duplicate-field blocks; arguments also drawn from currently held blocks incl. duplicate wrappers and from structurally equal copies; list arguments; both fail modes) are run side by side with a model written from the docstrings; after every call every view (blocks, entries, entries_dict, strings, strings_dict, preambles, comments, failed_blocks) is compared with the model and a raising call must leave the library as it was.",
    "Trusted: the slot-list model in pbt/props/C08.py. Known finding F-12 (add with fail_on_duplicate_key adds, then raises) is excluded by a predicate on that exact call shape and reported as KNOWN-FINDING. Order of Library.strings not asserted.",
    "DESIGN.md 4 C08",
)

chk(
    "C19",
    "model-based testing of call histories against an insertion-ordered dict (exhaustive + Hypothesis lists + rule-based state machine); metamorphic single-attribute perturbation for structural equality",
    "Exploration: every history of depth <= 3/4 over 25 mapping operations on keys {a, b, A} from three start entries, random histories of <= 30 operations over a 6-key pool (case variants, hyphen, empty key) and a Hypothesis rule-based state machine are compared step by step with a Python dict of key -> Field (return values, KeyError, field order, fields_dict, items(), ENTRYTYPE/ID; every Field object ever stored must keep its content); equality: every block and field of parsed documents and of generated block specs must equal its copy, deep copy and a twin rebuilt through the public constructors, and must differ (both directions, == and !=) from every single-attribute perturbation incl. metadata and the Explicit/Implicit class swap.",
    "Trusted: Python dict as the reference mapping; perturbation builder uses only public constructors/setters. `del entry[absent]` may raise or not.",
    "DESIGN.md 4 C19",
)

chk(
    "C16",
    "bounded-exhaustive libraries x all block-type orders + seeded Hypothesis; invariant oracle (permutation, stable order, comment-run adjacency, no mutation/aliasing)",
    "Exploration: every library of <= 3 blocks over a 7-block sub-universe x all 326 sub-permutations of the five block types (+ default) x both comment modes, length 4 with a stride over the orders (all orders in the thorough tier), and random libraries of up to 16 blocks from a 16-block universe (equal keys across types, empty keys, failed, duplicate-key and duplicate-field blocks, leading/trailing comment runs) are checked with predicates written from the statement: permutation of canonical forms, non-decreasing (type rank, key) with stable ties, each comment run still directly above its block, trailing run contiguous and placed by its class rank, input canonically unchanged and identity-disjoint from the output.",
    "Trusted: canon()/mutable_ids() helpers; unique start lines as identity tags. Placement of mixed-class trailing comment runs not asserted.",
    "DESIGN.md 4 C16",
)
chk(
    "C17",
    "bounded-exhaustive key tuples x all custom orders + seeded Hypothesis; invariant oracle (permutation, sort-key monotonicity, stability, last-wins reference, idempotence)",
    "Exploration: every entry of 0..4 (quick) / 0..5 (thorough) fields over the colliding key pool {a, A, b, B, ab, Ab, c} x alphabetical sorting, key normalisation and every custom order (all 206 permutations of subsets <= 4 of {a, A, b, B, c}) x case-sensitive/insensitive x in-place/copy, plus random entries of up to 8 fields with further keys; checked for: exactly the input fields once each, non-decreasing sort keys with stable ties, normalisation = first-occurrence order with last-occurrence value, untouched entry type/key/raw/start line and neighbouring blocks, idempotence, and the constructor rejecting exactly the orders with duplicates after folding.",
    "Trusted: the predicates in pbt/props/C17.py; distinct field values as identity tags.",
    "DESIGN.md 4 C17",
)

chk(
    "C06",
    "differential against a reference renderer written from the statement + renderer-independent column/comma predicates, over finite format grids and seeded Hypothesis libraries x formats",
    "Exploration: the output of writer.write / write_string(unparse_stack=[]) is compared byte for byte with a reference renderer on a finite grid (3 libraries x value_column 0..40,'auto' x 4 indents x comma x 3 separators x 2 failed-block comments) and on random libraries of every block kind (incl. plain / duplicate-key / duplicate-field / middleware-error failed blocks with multi-line raw) x random formats; independently of the renderer, on single-line values every field must be on one line as indent+key+pad+' = '+value with the value at column len(indent)+value_column iff the key is short enough, 'auto' must give one common minimal column over all entries, the comma rule must hold, no non-blank separator may follow the last block, format object and library must be unchanged, one format object re-used for several writes with its settings changed in between must obey the current settings each time, a library whose views were read and which was then edited through the public model API (field keys/values, fields replaced or added, entry key, Library.replace) must be written as it is now, and the value_column setter must reject exactly negative ints and non-'auto' non-ints.",
    "Trusted: pbt/props/C06.py ref_render and the column predicates. Failed blocks with raw=None and parsing_failed_comment strings with other placeholders are outside the generated domain.",
    "DESIGN.md 4 C06",
)

chk(
    "C01",
    "bounded-exhaustive token enumeration over the splitter's mark classes + seeded Hypothesis garbage/damaged documents + size-scaled families + coverage-guided fuzzing (atheris); no-exception / well-formed-failed-block oracle with a watchdog",
    "Exploration: every text spelled by <= 5 (quick) / <= 6 (thorough) tokens of the 16-token splitter alphabet (all mark kinds, block openers, backslash, gap material) and by <= 4/6 tokens inside five structured frames, random Unicode / mark soups / damaged grammar documents, 28 size-scaled families at 10^3..10^4 (10^5 thorough) and a coverage-guided atheris campaign (dictionary = the mark alphabet; oracle incl. tiling inside the target) are pushed through parse_string and write_string (4 formats): no exception of any kind (RecursionError, ParserStateException ...), termination within the watchdog, every failed block carries an Exception and a str raw, opener-free text gives at most one implicit comment.",
    "Trusted: watchdog margins (60 s for inputs < 1 KiB; size-scaled inputs over budget are 'inconclusive'); atheris campaign only approximately reproducible, its findings are re-run through the plain oracle.",
    "DESIGN.md 4 C01",
)
chk(
    "C02",
    "constructive ground truth (grammar derivations decoded from Hypothesis int lists) + bounded-exhaustive frame/token enumeration filtered by an independent reference recogniser; exact structural comparison both ways",
    "Exploration: random derivations of the dialect grammar stated in DESIGN.md 3.2 (0-12 items of all kinds, nested braces to depth 4, quoted values with braces and quotes-in-braces, '#' concatenations, numbers/identifiers, escaped delimiters, every whitespace form incl. CRLF, blocks sharing a line, optional trailing commas, zero-field entries) carry their expected structure from generation; additionally every token sequence of <= 5/6 frame tokens inside six value/string/comment/preamble frames and every sequence of <= 5/6 block-level items is kept when the independent recursive-descent recogniser accepts it. Splitter.split() and parse_string(parse_stack=[]) must return exactly the expected blocks (class, lower-cased type, exact key, ordered fields with verbatim values, string/preamble/comment text) and no failed block.",
    "Trusted: pbt/bibgen.py (generator) and pbt/refparse.py (recogniser), which must agree with each other on every derivation (else exit 2). The dialect excludes parenthesised blocks, newline between type and '{' and '%' comments inside entries.",
    "DESIGN.md 3.2, 3.3, 4 C02",
)
chk(
    "C03",
    "invariant oracle (cursor walk = tiling, newline arithmetic = line numbers) over bounded-exhaustive token sequences, frames, seeded Hypothesis garbage and grammar derivations with generator-known field positions",
    "Exploration: on every text of the C01 domains (token sequences <= 5/6, frames <= 4/6, random garbage and damaged documents) and on random grammar derivations (also with colliding keys) the raws of parse_string(text).blocks must tile the input in one cursor walk (skip whitespace, raw starts there and is non-empty, only whitespace left at the end), each start_line must equal the number of newlines before the raw's offset, each field line must lie within its block, and for derivations each field whose key and '=' were generated on one line must report exactly that line.",
    "Trusted: pbt/splitcheck.py tiling(); str.isspace as the meaning of whitespace; lines are newline-separated.",
    "DESIGN.md 4 C03",
)
chk(
    "C04",
    "metamorphic relations (prefix stability, resynchronisation with line shift, concatenation) over bounded-exhaustive X token sequences x fixed (D1, D2) pairs, truncations, and seeded Hypothesis garbage / derivation pairs",
    "Exploration: for X = every sequence of <= 4 (quick) / <= 5 (thorough) splitter tokens and every truncation of five valid blocks, combined with 12 fixed well-formed (D1, D2) pairs covering every block kind at the boundary, and for random garbage X and random grammar-derived D1/D2: parse(D1+X) must start with exactly parse(D1)'s blocks, the last blocks of parse(X + newline + D2) must equal parse(D2) with start lines shifted, and parse(D1 + newline + D2) must be the concatenation; for the bare Splitter and for default parse_string (canonical structural equality incl. failed blocks).",
    "Trusted: canon() comparison with shifted line attributes; D1/D2 contain no bare identifier that X could define as @string (under parse_string such a reference legitimately resolves), X-relations on random derivations are checked on the bare splitter only.",
    "DESIGN.md 4 C04",
)

chk(
    "C09",
    "constructive ground truth over grammar derivations with colliding key pools (bounded-exhaustive item sequences + seeded Hypothesis)",
    "Exploration: every document of <= 5 (quick) / <= 6 (thorough) items over seven item kinds (entries a/b, entry a with a repeated field, zero-field entry a, strings a/b, comment) and random derivations whose entry, string and field keys come from pools of 2-4 names (case variants, names shared between entries and strings) are parsed with the bare splitter and with default parse_string; expected from the derivation alone: one block per item, first registrable occurrence live and identical to the object in entries_dict/strings_dict, every later occurrence a DuplicateBlockKeyBlock at its own position exposing key, live block and the complete duplicate (all fields, order, verbatim values), repeated field keys -> DuplicateFieldKeyBlock with exactly the repeated keys, all occurrences kept, key not registered; every derivation is additionally parsed in two halves through the `library=` argument and must give the same result.",
    "Trusted: pbt/bibgen.py render() as ground truth. Values of live blocks are compared verbatim only for the bare splitter (enclosure stripping is C10's subject).",
    "DESIGN.md 4 C09",
)

chk(
    "C10",
    "bounded-exhaustive enumeration of every value the splitter produces for frame token sequences + seeded Hypothesis grammar values; lexical strip oracle, round trip (reuse), re-parse round trip through the splitter, integer-rule table",
    "Exploration: every distinct field and @string value that the splitter yields for <= 5 (quick) / <= 6 (thorough) frame tokens (nested braces, quotes in braces, concatenations, empty and single-character values such as a lone quote), random grammar values, ints and digit strings x all 8 AddEnclosing option sets x numeric / other field keys x in-place / copy: removal must equal the lexical one-layer strip with the kind recorded; reuse must restore the value exactly; for brace-balanced contents not ending in a backslash the default enclosing must re-parse (bare Splitter) as one field / string with that text and content; the integer rule must hold and nothing may raise. Whole entries with 1-7 fields, also with a repeated field key (built through the model, or the inner entry of a duplicate-field block): every field compared by position. Known finding F-22 (repeated key, occurrences enclosed differently) is excluded by its exact shape only.",
    "Trusted: strip1()/balanced() in pbt/props/C10.py. Contents containing a block opener '@word{' are outside the re-parse domain (the splitter cannot produce them); non-ASCII digit strings are only required not to raise.",
    "DESIGN.md 4 C10",
)
chk(
    "C11",
    "constructive ground truth over grammar derivations dense in @string definitions and reference look-alikes (finite product + seeded Hypothesis)",
    "Exploration: the finite product of 6 definition placements (none, before, after, twice, after+twice, other-case key) x 6 definition values x 18 value shapes (bare defined / undefined / other-case key, braced, quoted, concatenations, numbers, prefixes) for one and two fields, plus random documents with 0-3 definitions per key from {s, t, S} anywhere in the document: after default parse_string a field holds the one-layer-stripped value of the first definition iff its source value is a bare identifier equal to a defined key, otherwise its own stripped value; string blocks stay in place with their key and stripped value, the first definition is the registered one; the entry metadata lists exactly the resolved field keys; with the middleware alone non-entry blocks are canonically unchanged.",
    "Trusted: pbt/bibgen.py render() as ground truth, strip1(). Entry and field keys are unique in this check (collisions are C09's subject).",
    "DESIGN.md 4 C11",
)

chk(
    "C05",
    "round trip parse -> write -> parse -> write over seeded Hypothesis grammar derivations x BibtexFormat settings and recogniser-accepted frame enumerations; content equality, byte fixpoint, and a constructive prediction of the first parse",
    "Exploration: random derivations of the dialect grammar with unique keys (all block kinds, nested braces, quoted values, concatenations, numbers, multi-line values, free text between blocks) and reference-dense documents (resolved, unresolved and later-defined @string references) x random formats (indent [ \\t]{0,8}, value_column 0..40 and 'auto', trailing comma, whitespace-only separators incl. the empty one and CRLF), plus every recogniser-accepted text of <= 4/5 frame tokens in four frames x 6 fixed formats: the content of the first parse must equal the content predicted from the derivation alone (so that a symmetric corruption cannot cancel out), write_string must leave the parsed library's content as it was, the re-parsed written text must have the same blocks with the same types, keys, field order, values and comment/preamble/string text and no failed block, and writing it again must reproduce the first output byte for byte.",
    "Trusted: pbt/bibgen.py ground truth, strip1 (lexical one-layer strip) and the C11 resolution rule for the prediction. Separators with non-blank characters are C06's subject.",
    "DESIGN.md 4 C05",
)

chk(
    "C07",
    "invariant oracle (canonical form before/after, identity-disjointness of all reachable mutable objects) over the finite grid of every shipped middleware configuration x libraries with every block kind, and seeded Hypothesis stacks of 1-3 configurations",
    "Exploration: every one of the 49 middleware configurations (all 16 shipped classes x option sets, constructed with allow_inplace_modification=False; block sorter always) x 7 documents x 6 preparation stacks (which add list / NameParts values and MiddlewareErrorBlocks for invalid names and raising converters to libraries that already hold plain, duplicate-key and duplicate-field failed blocks), plus random stacks of 1-3 configurations on random / damaged grammar documents: after every stage the stage input and the original library must have an unchanged canonical form (also when a type-incompatible stage raises), the result must share no mutable object (library, lists, dicts, blocks, field lists, fields, metadata, NameParts) with its input or with the original, every copy-mode stage is applied a second time to the same input (same result, input and first result untouched), the library must be deep-copyable, and write_string (default stack, 4+ formats) must leave library and format unchanged and return identical text when called twice.",
    "Trusted: canon()/mutable_ids() (validated against deepcopy on every case: canon(deepcopy(x)) == canon(x) or exit 2); the value-type tracker that decides whether a stage is type-compatible (exceptions from incompatible stages are allowed, the input must still be untouched).",
    "DESIGN.md 4 C07",
)
chk(
    "C18",
    "round trip decode(encode(t)) over a bounded-exhaustive character-pair enumeration, atom grids and seeded Hypothesis texts; stage-wise scope/type invariants and error-containment oracle over constructed libraries x every constructor option",
    "Exploration: every 1- and 2-character string over the 202-character alphabet of the quantifier (fixed in advance: ASCII printable without '\"' and '^', tab, newline, accented Latin letters; ligature sequences excluded), URL and $...$ atoms in 20 contexts, and random token strings up to 40 tokens, as field value, @string value and NameParts parts, under default / keep_math=False / enclose_urls=False: decode(encode(t)) == t. Scope: constructed libraries with every block kind and value type (str, int, list, NameParts, lists of NameParts, markers) x 30 encoder/decoder sequences over every constructor option (keep_math, enclose_urls, keep_braced_groups, keep_math_mode, custom converters raising on a marker) x in-place/copy, checked stage by stage: classes, keys, entry types, field keys/order, raw, start lines, non-text values and non-entry/non-string blocks unchanged, text values stay str, String.value stays str, NameParts keep list-of-str parts, a raising converter gives a MiddlewareErrorBlock holding the entry with the failing value unaltered, never an exception.",
    "Trusted: the alphabet definition; pylatexenc 2.11 as installed. Known findings F-11b (greedy math rule, >= 3 dollars or '%' between two dollars) and F-21 (URL with TeX specials under enclose_urls) are excluded by predicates and reported as KNOWN-FINDING.",
    "DESIGN.md 4 C18",
)

chk(
    "C20",
    "differential testing of the four entry points against the documented composition, with order-sensitive probe middlewares and block-protocol probes (finite grids + seeded Hypothesis stacks)",
    "Exploration: 18 documents (grammar-derived with colliding keys and failed blocks, non-ASCII Latin and CJK) x every stack of <= 2 members of (2 order-sensitive library probes + 3 shipped middlewares) in each of parse_stack / append_middleware / unparse_stack / prepend_middleware (and write_file's aliases), all both-arguments combinations on every entry point, parse_file x {utf-8, latin-1, gbk, utf-16}, write_file x {path, StringIO, file object x 4 encodings} x 3 formats, block probes returning for each of the 5 block kinds each of 14 result kinds (None, [], (), block, lists/tuples of 1-3 blocks, generator, object, 0, False, list with a non-block, str, dict), and random stacks of <= 3 members in both arguments: the outcome (canonical library / text, or exception type) must equal the documented composition computed by the harness (split; given stack in order, or ResolveStringReferences + RemoveEnclosing then the additions; additions then brace-enclosing on a copy; writer), ValueError iff both arguments are given, TypeError for non-block results, each block kind dispatched to its own transform_* method, a block returned as the same instance under a new key is re-registered under that key, and the lists returned by default_parse_stack()/default_unparse_stack() can be edited by the caller without changing later calls.",
    "Trusted: the probe middlewares and the reference fold in pbt/props/C20.py; shipped middlewares are used as black boxes on both sides (their own behaviour is the subject of other checks). Documents contain no carriage return.",
    "DESIGN.md 4 C20",
)

# additions of rounds 7 / 8 (appended to the level text of the check)
ADDED = {
    "C01": " Length-swept families: a repeated field key, entry key, @string key and a type name of every length 1..300 (1..1024 thorough), n repeated field keys, n aborted blocks in a row, a value of length n before an opener.",
    "C03": " The size-scaled families include runs of n aborted blocks / strings and names of length n.",
    "C04": " X also ranges over every truncation of entries that repeat a field key, and half of the damaged documents draw their field keys from a small colliding pool; two (D1, D2) pairs carry escaped braces on the line of D2's opener.",
    "C07": " One document is written the way reference managers write files (encoding header, cross references, an error block as first holder of a key).",
    "C09": " Structured families: n occurrences of one key for n <= 14 (entries, strings, interleaved), verbatim repetitions on one line or several, the k-th repetition of a field for k <= 11 (equal or different values, at the start / end / interleaved).",
    "C14": " Protected groups include escaped braces before the inner ' and '.",
    "C15": " A @string named like the month spelling (same / upper / lower case) may stand in the library; month numbers are zero-padded up to 255 digits.",
    "C16": " Entries of the universe cross-reference one another, some libraries carry blank lines between consecutive blocks, one comment is the '% Encoding:' header.",
    "C06": " Libraries may hold one object several times (a comment added again, a Field listed twice), instances of application-defined subclasses of the model classes and every failed-block kind; failed raws with an ambiguous line count (empty, ending in a line break, CR / FF / U+2028 ...) must be emitted verbatim while the {n} of the comment is free for them; lists handed out by the library's views are trimmed by the caller before writing.",
    "C08": " List arguments of every length up to 12 with a missing / repeated block at every position. The universe holds instances of subclasses of Entry / String; after every step the lists / dict handed out by the views are emptied and read again; the list given to Library(blocks) and list arguments of add / remove stay unchanged and are never adopted.",
    "C10": " The reuse law is continued for two more remove / add cycles in place on the same objects; a third of the whole-entry cases hold a @string named like a field's content.",
    "C11": " @string keys and bare values include BibTeX macro names with '-', ':' and '.'; structured families: a defined reference after n <= 12 undefined ones in one entry, up to 40 references per entry, month / journal / crossref field keys with month-named macros.",
    "C13": " The middleware sub-check includes entries that repeat a name-field key (each occurrence split on its own).",
    "C17": " Histories: for 2-3 fields (and at random) each case is repeated on an entry that went through earlier in-place field middlewares and whose field list was then put back (sort, edit, sort); every input Field object keeps its value.",
    "C18": " Typed libraries include hand-built blocks and fields without start line / raw text, also on the failure paths; identifier-like values (DOI, ISBN, arXiv) under the field keys that carry them; an entry whose only failing string is its 13th; values on which the shipped default decoder itself gives up (macros without their arguments) are contained under every decoder option.",
    "C19": " The Field handed to set_field (half of them without a start line) is compared with a snapshot taken before the call.",
    "C20": " Stack arguments are handed over as list / tuple / one-shot iterator / generator / deque (annotated Iterable[Middleware]); a list the caller handed over holds the same objects afterwards; block probes also return deque / dict-values collections and sized / iterable subclasses of the model classes.",
}

ALL = ["C%02d" % i for i in range(1, 21)]
NOT_YET = "check not built yet in this revision of /verif (see DESIGN.md section 4 for its design); not claimed"


def main():
    checks = []
    for pid in ALL:
        if pid not in CHECKS:
            continue
        c = CHECKS[pid]
        checks.append(
            dict(
                property_id=pid,
                quick_cmd=f"./check {pid} --tier quick",
                thorough_cmd=f"./check {pid} --tier thorough",
                evidence_file=f"/verif/evidence/{pid}.json",
                replay_cmd_template=f"./check {pid} --replay {{path}}",
                engine="pbt",
                level_claimed=dict(category="exploration", text=c["text"] + ADDED.get(pid, ""), design_ref=c["ref"]),
                level_note=c["note"],
                technique=c["technique"],
            )
        )
    man = dict(
        version=1,
        setup_cmd="./setup.sh",
        hooks=dict(
            guard="SCIUNTO_ORG_PYTHON_BIBTEXPARSER_VERIF",
            enable="no hooks exist: every property is observable through the public API; the checks import the working tree at /repo directly (sys.path[0]=/repo, no build step, bytecode writing disabled)",
            baseline_off_cmd="cd /repo && /venv/bin/python -m pytest -ra -q -p no:cacheprovider",
            source_commits=[],
            add_only=True,
        ),
        engines=[
            dict(
                name="pbt",
                path="/verif/check",
                serves_properties=sorted(CHECKS),
                kind_free_text="property-based testing: bounded-exhaustive token/word enumeration, seeded Hypothesis (incl. rule-based state machines), explicit oracles (reference implementations, constructive ground truth, round trips, metamorphic relations), 16-way process pool",
            )
        ],
        checks=checks,
        notes="Equivalent spellings: middlewares are constructed, by a hash of the case, with options left out / documented defaults passed explicitly / leading arguments by position (libgen.construct). History independence: for part of the cases of C10-C13, C15-C18 the middleware instance has already transformed an unrelated library, a variant of the case's own library (other letter case / blanks), or - in place - the very library whose content is then restored (libgen.maybe_preuse). Runner: ./check <id> --tier quick|thorough ; VERIF_SEED and VERIF_TIER honoured; exit 0/1/2 as described in DESIGN.md 2.4. Size boundaries: deterministic large cases (documents of 130-4200 blocks, entries of 1100 fields, 1100 nested braces, name lists of 4200 persons, histories of 1100 operations; evidence class large-*). Known findings: /verif/known_findings.json. VERIF_REPO=<dir> points the checks at a scratch copy of the repository (used only for sensitivity runs; default /repo).",
        not_applicable=[dict(property_id=p, reason=NOT_YET) for p in ALL if p not in CHECKS],
    )
    path = os.path.join(HERE, "MANIFEST.json")
    with open(path, "w") as f:
        json.dump(man, f, indent=1)
        f.write("\n")
    try:
        import jsonschema

        schema = json.load(open("/root/.vp/MANIFEST.schema.json"))
        jsonschema.validate(man, schema)
        print("MANIFEST.json valid;", len(checks), "checks")
    except ImportError:
        print("MANIFEST.json written (jsonschema not importable here, not validated);", len(checks), "checks")


if __name__ == "__main__":
    sys.exit(main())
