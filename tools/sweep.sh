#!/bin/sh
# usage: tools/sweep.sh <tier> <seed> [<seed> ...]   - runs every check at the given seeds, prints one line per run
TIER=$1; shift
./setup.sh >/dev/null 2>&1
for S in "$@"; do
  for P in C01 C02 C03 C04 C05 C06 C07 C08 C09 C10 C11 C12 C13 C14 C15 C16 C17 C18 C19 C20; do
    OUT=$(VERIF_SEED=$S ./check $P --tier $TIER 2>&1); RC=$?
    echo "seed=$S $P rc=$RC $(echo "$OUT" | grep -E "tier=" | tail -1)"
    if [ $RC -ne 0 ]; then echo "$OUT" | grep -vE "^KNOWN" | head -12; fi
  done
done
