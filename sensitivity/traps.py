#!/venv/bin/python
"""Hand-written "Python trap" mutants (truthiness, equality instead of position, strip(chars), prefix tests,
dict order, recursion where one step is specified, ...) and a driver that runs the mapped quick checks against
each in its own scratch worktree of /repo HEAD.

    sensitivity/traps.py [name-prefix ...]        -> sensitivity/traps_result.json

A mutant that the repository's suite rejects is recorded as such and not run against the checks.
"""
import json
import os
import shutil
import subprocess
import sys
from concurrent.futures import ThreadPoolExecutor

VERIF = os.path.dirname(os.path.dirname(os.path.abspath(__file__)))
B = "bibtexparser/"
M = B + "middlewares/"

# name, file, old, new, checks expected to notice (the property the change touches), remark
T = [
    ("w-sep-by-equality", B + "writer.py", "if i < len(library.blocks) - 1:", "if block != library.blocks[-1]:", ["C06", "C05"],
     "separator decided by equality with the last block: an earlier block equal to the last one loses its separator"),
    ("w-sep-by-identity", B + "writer.py", "if i < len(library.blocks) - 1:", "if block is not library.blocks[-1]:", ["C06"],
     "separator decided by identity with the last block: the same comment object held twice"),
    ("w-comma-by-equality", B + "writer.py", "if bibtex_format.trailing_comma or i < len(block.fields) - 1:",
     "if bibtex_format.trailing_comma or field != block.fields[-1]:", ["C06", "C05"],
     "comma decided by equality with the last field: an earlier field equal to the last one loses its comma"),
    ("w-failed-lines-count", B + "writer.py", "lines = len(block.raw.splitlines())", 'lines = block.raw.count("\\n") + 1', ["C06"],
     "{n} counted as newlines+1: differs for a raw that is empty or ends in a line break"),
    ("w-comment-backslash-parity", B + "writer.py", 'if comment.endswith("\\\\"):', 'if comment.endswith("\\\\") and not comment.endswith("\\\\\\\\"):', ["C05", "C06"],
     "trailing backslash guard skipped for an even number of backslashes (the dialect has no backslash pairs)"),
    ("w-auto-skips-last-entry", B + "writer.py", "    for entry in library.entries:\n        for key in entry.fields_dict:",
     "    for entry in library.entries_dict.values():\n        for key in entry.fields_dict:", ["C06"],
     "auto column computed over entries_dict (same set - control: should be harmless)"),
    ("l-entries-from-dict", B + "library.py", "return [b for b in self._blocks if isinstance(b, Entry)]", "return list(self._entries_by_key.values())", ["C08"],
     "entries taken from the key dict: order differs after replace"),
    ("l-empty-key-not-registered", B + "library.py", "        if isinstance(block, Entry):\n            try:\n                prev_block_with_same_key = self._entries_by_key[block.key]",
     "        if isinstance(block, Entry) and not block.key:\n            pass\n        elif isinstance(block, Entry):\n            try:\n                prev_block_with_same_key = self._entries_by_key[block.key]", ["C08", "C09"],
     "entries with an empty key are not registered (truthiness of '')"),
    ("m-pop-caseless", B + "model.py", "self._fields = [f for f in self._fields if f.key != key]", "self._fields = [f for f in self._fields if f.key.lower() != key.lower()]", ["C19"],
     "pop removes case variants of the key as well"),
    ("m-field-eq-ignores-line", B + "model.py", "            and self.__dict__ == other.__dict__\n        )\n\n    def __str__(self):\n        return f\"Field (line",
     "            and (self.key, self.value) == (other.key, other.value)\n        )\n\n    def __str__(self):\n        return f\"Field (line", ["C19"],
     "Field equality ignores the start line"),
    ("e-strip-chars", M + "enclosing.py", 'if len(value) >= 2 and value.startswith("{") and value.endswith("}"):\n            return value[1:-1], "{"',
     'if len(value) >= 2 and value.startswith("{") and value.endswith("}"):\n            return value.strip("{}"), "{"', ["C10"],
     "strip('{}') removes every layer (and braces belonging to the content)"),
    ("e-isnumeric", M + "enclosing.py", "(isinstance(value, int) or value.isdigit())", "(isinstance(value, int) or value.isnumeric())", ["C10"],
     "isnumeric accepts fractions / CJK numerals"),
    ("i-recursive-resolution", M + "interpolate.py", "field.value = library.strings_dict[field.value].value",
     "field.value = library.strings_dict[field.value].value\n                while isinstance(field.value, str) and field.value in library.strings_dict and library.strings_dict[field.value].value != field.value:\n                    field.value = library.strings_dict[field.value].value", ["C11"],
     "references are followed transitively (a @string whose value is the bare name of another @string)"),
    ("f-order-of-last-occurrence", M + "fieldkeys.py", "new_fields_dict[normalized_key] = field", "new_fields_dict.pop(normalized_key, None)\n            new_fields_dict[normalized_key] = field", ["C17"],
     "merged key takes the position of its last occurrence"),
    ("sf-index-truthiness", M + "sorting_entry_fields.py", "return self._order.index(key)", "return self._order.index(key) or len(self._order)", ["C17"],
     "rank 0 is falsy: the first listed key sorts with the unlisted ones"),
    ("sb-key-caseless", M + "sorting_blocks.py", "                        block_junk.sort_key,\n                    )", "                        block_junk.sort_key.lower(),\n                    )", ["C16"],
     "keys compared case-insensitively in comment-preserving mode only"),
    ("sb-ties-reversed", M + "sorting_blocks.py", "            blocks.sort(key=_sort_key)", "            blocks = sorted(blocks, key=_sort_key, reverse=True)[::-1]", ["C16"],
     "reverse-sort-and-reverse: equal keys come out in reverse source order"),
    ("mo-int-prefix", M + "month.py", "            if v_lower in _MONTH_ABBREV:\n                return (\n                    _MONTH_ABBREV.index(v_lower[:3]) + 1,",
     "            if v_lower[:3] in _MONTH_ABBREV and (len(v_lower) == 3 or v_lower not in _LOWERCASE_FULL):\n                return (\n                    _MONTH_ABBREV.index(v_lower[:3]) + 1,", ["C15"],
     "any word starting with a month abbreviation is a month (janx, mayor, marching)"),
    ("mo-long-strip", M + "month.py", "        elif isinstance(v, str):\n            v_lower = v.lower()\n\n",
     "        elif isinstance(v, str):\n            v_lower = v.strip().lower()\n\n", ["C15"],
     "blank-padded abbreviations are treated as months by the long-name middleware"),
    ("ep-both-truthiness", B + "entrypoint.py", "if parse_stack is not None and append_middleware is not None:", "if parse_stack and append_middleware:", ["C20"],
     "an empty stack / empty addition given together with the other no longer raises"),
    ("ep-unparse-both-truthiness", B + "entrypoint.py", "if unparse_stack is not None and prepend_middleware is not None:", "if unparse_stack and prepend_middleware:", ["C20"],
     "same for write_string"),
    ("mw-empty-collection-kept", M + "middleware.py", "            if transformed is None:\n                pass", "            if not transformed:\n                pass", ["C20"],
     "falsy results skipped (control: [] and None are both 'zero blocks'; a falsy Block subclass would be dropped)"),
    ("mw-collection-str", M + "middleware.py", "            elif isinstance(transformed, Collection):", "            elif isinstance(transformed, (list, tuple)):", ["C20"],
     "only lists and tuples count as collections (sets, dict views, deques raise TypeError)"),
    ("s-key-strip-chars", B + "splitter.py", None, None, [], "placeholder"),
]


def sh(cmd, cwd=None, env=None):
    p = subprocess.run(cmd, shell=True, cwd=cwd, env=env, capture_output=True, text=True)
    return p.returncode, p.stdout + p.stderr


def run_one(t):
    name, path, old, new, props, remark = t
    if old is None:
        return name, None
    wt = f"/tmp/wt_trap_{name}_{os.getpid()}"
    rc, out = sh(f"git worktree add -q --detach {wt} HEAD", cwd="/repo")
    if rc:
        return name, {"error": out}
    res = {"file": path, "remark": remark, "old": old, "new": new}
    try:
        src = open(os.path.join(wt, path)).read()
        if src.count(old) != 1:
            res["error"] = f"pattern occurs {src.count(old)} times"
            return name, res
        open(os.path.join(wt, path), "w").write(src.replace(old, new))
        rc, out = sh("/venv/bin/python -m pytest -q -p no:cacheprovider -x 2>&1 | tail -1", cwd=wt, env=dict(os.environ, PYTHONPATH=wt))
        res["repo_suite"] = out.strip()
        if "failed" in out or "error" in out.lower() or "passed" not in out:
            res["verdict"] = "rejected by the repository's suite"
            return name, res
        res["checks"] = {}
        for p in props:
            rc, out = sh(f"./check {p} --tier quick", cwd=VERIF, env=dict(os.environ, VERIF_REPO=wt, VERIF_EVIDENCE_DIR=wt + "_ev"))
            res["checks"][p] = {"exit": rc, "lines": [l.strip() for l in out.splitlines() if "sub-check=" in l or "HARNESS" in l][:4]}
        res["verdict"] = "caught" if any(c["exit"] == 1 for c in res["checks"].values()) else "NOT caught"
        return name, res
    finally:
        sh(f"git worktree remove --force {wt}", cwd="/repo")
        shutil.rmtree(wt + "_ev", ignore_errors=True)


def main():
    sel = sys.argv[1:]
    todo = [t for t in T if t[2] is not None and (not sel or any(t[0].startswith(s) for s in sel))]
    out_path = os.path.join(VERIF, "sensitivity", "traps_result.json")
    results = json.load(open(out_path)) if os.path.exists(out_path) else {}
    with ThreadPoolExecutor(3) as ex:
        for name, res in ex.map(run_one, todo):
            if res is None:
                continue
            results[name] = res
            print(name, "->", res.get("verdict") or res.get("error"), {p: c["exit"] for p, c in res.get("checks", {}).items()}, flush=True)
            json.dump(results, open(out_path, "w"), indent=1, sort_keys=True)


if __name__ == "__main__":
    main()
