#!/bin/sh
# Offline setup: make sure hypothesis (and atheris for the fuzz engine) are importable by /venv/bin/python.
# Nothing is compiled; the checks import /repo's working tree directly.
set -e
cd "$(dirname "$0")"
WH=/opt/veriftools/wheels
mkdir -p .deps evidence/replay
if ! PYTHONPATH=.deps /venv/bin/python -c "import hypothesis" 2>/dev/null; then
  /venv/bin/pip install --no-index --find-links "$WH" --target .deps hypothesis >/dev/null
fi
if ! PYTHONPATH=.deps /venv/bin/python -c "import atheris" 2>/dev/null; then
  /venv/bin/pip install --no-index --find-links "$WH" --target .deps atheris >/dev/null 2>&1 || echo "note: atheris not installable; the fuzz engine of C01 is skipped"
fi
PYTHONPATH=.deps /venv/bin/python -c "import hypothesis, sys; print('setup ok: hypothesis', hypothesis.__version__)"
