#!/venv/bin/python
"""atheris target for C01/C03: bytes -> utf-8 (replace) -> parse_string -> tiling/line oracle -> write_string.
Run by pbt/props/C01.py (w_fuzz) as a subprocess; any uncaught exception is a libFuzzer crash."""
import os
import sys

HERE = os.path.dirname(os.path.dirname(os.path.abspath(__file__)))
sys.path.insert(0, HERE)
deps = os.path.join(HERE, ".deps")
if os.path.isdir(deps) and deps not in sys.path:
    sys.path.append(deps)

import atheris  # noqa: E402

REPO = os.path.abspath(os.environ.get("VERIF_REPO", "/repo"))
sys.dont_write_bytecode = True
sys.path.insert(0, REPO)

# the code under test must be imported for the first time inside instrument_imports
with atheris.instrument_imports(include=["bibtexparser"]):
    import bibtexparser  # noqa: E402
    import bibtexparser.splitter  # noqa: E402
    import bibtexparser.writer  # noqa: E402

from pbt import harness, splitcheck  # noqa: E402

harness.setup_repo_path()


class OracleFailure(Exception):
    pass


def one_input(data):
    text = data.decode("utf-8", "replace")
    lib = bibtexparser.parse_string(text)
    fail, positions = splitcheck.tiling(text, lib.blocks)
    if fail:
        raise OracleFailure(fail[0])
    for b, p in zip(lib.blocks, positions):
        if b.start_line != text.count("\n", 0, p):
            raise OracleFailure("start-line")
    out = bibtexparser.write_string(lib)
    if not isinstance(out, str):
        raise OracleFailure("write type")


if __name__ == "__main__":
    atheris.Setup(sys.argv, one_input)
    atheris.Fuzz()
