"""Token alphabets and the sharded bounded-exhaustive enumerator."""
import itertools

# Splitter alphabet (DESIGN 3.1)
SIGMA_S = ["@a", "@comment", "@string", "@preamble", "@", "{", "}", '"', ",", "=", "\n", "x", " ", "#", "\\", "1"]
# Frame alphabet (DESIGN 3.1)
SIGMA_F = ["{", "}", '"', ",", "=", "#", "x", " ", "\\", "@a{", "\n"]

# `and` splitter alphabet (DESIGN C12)
SIGMA_A = ["Ab", "and", "And", "AND", "an", "d", " ", "\t", "\n", "~", "{", "}", ",", "\\'E", "\\ ", "\\"]
# pairs of adjacent tokens that would make two different token sequences spell the same string
SIGMA_A_SKIP = {("an", "d"), ("\\", " ")}

# name alphabet (DESIGN C13)
SIGMA_N = ["AA", "bb", "{cc}", "{\\'E}x", "{\\'e}x", "\\'E", "1b", ",", " ", "~", "{", "}", "\\"]


def seq_tasks(alphabet, max_len, prefix_len=2):
    """[(length, prefix tuple)] covering all sequences of length 0..max_len exactly once."""
    tasks = []
    for L in range(0, max_len + 1):
        if L <= prefix_len:
            tasks.append((L, None))
        else:
            for pre in itertools.product(range(len(alphabet)), repeat=prefix_len):
                tasks.append((L, pre))
    return tasks


def seqs(alphabet, L, prefix, skip_pairs=None):
    """All token tuples of length L starting with the prefix (indices), optionally leaving out
    sequences that contain an adjacent pair from skip_pairs."""
    if prefix is None:
        it = itertools.product(alphabet, repeat=L)
    else:
        pre = tuple(alphabet[i] for i in prefix)
        it = (pre + rest for rest in itertools.product(alphabet, repeat=L - len(pre)))
    if not skip_pairs:
        return it
    return (s for s in it if not any((a, b) in skip_pairs for a, b in zip(s, s[1:])))


def count_seqs(alphabet, max_len):
    return sum(len(alphabet) ** L for L in range(max_len + 1))
