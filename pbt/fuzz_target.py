#!/venv/bin/python
"""atheris targets with the semantic oracle inside the target (selected by FUZZ_TARGET):
  C01  bytes -> text -> parse_string -> tiling + line oracle (C03) -> write_string
  C12  bytes -> text -> split_multiple_persons_names vs conservation / idempotence / reference splitter
  C13  bytes -> text -> parse_single_name_into_parts vs the reference name partition
Started as a subprocess by pbt/fuzzrun.py; any uncaught exception is a libFuzzer crash."""
import os
import sys

HERE = os.path.dirname(os.path.dirname(os.path.abspath(__file__)))
sys.path.insert(0, HERE)
deps = os.path.join(HERE, ".deps")
if os.path.isdir(deps) and deps not in sys.path:
    sys.path.append(deps)

import atheris  # noqa: E402

REPO = os.path.abspath(os.environ.get("VERIF_REPO", "/repo"))
sys.dont_write_bytecode = True
sys.path.insert(0, REPO)

# the code under test must be imported for the first time inside instrument_imports
with atheris.instrument_imports(include=["bibtexparser"]):
    import bibtexparser  # noqa: E402
    import bibtexparser.middlewares.names  # noqa: E402
    import bibtexparser.splitter  # noqa: E402
    import bibtexparser.writer  # noqa: E402

from pbt import harness  # noqa: E402

harness.setup_repo_path()
TARGET = os.environ.get("FUZZ_TARGET", "C01")


class OracleFailure(Exception):
    pass


if TARGET == "C01":
    from pbt import splitcheck

    def one_input(data):
        text = data.decode("utf-8", "replace")
        lib = bibtexparser.parse_string(text)
        fail, positions = splitcheck.tiling(text, lib.blocks)
        if fail:
            raise OracleFailure(fail[0])
        for b, p in zip(lib.blocks, positions):
            if b.start_line != text.count("\n", 0, p):
                raise OracleFailure("start-line")
        out = bibtexparser.write_string(lib)
        if not isinstance(out, str):
            raise OracleFailure("write type")

elif TARGET == "C12":
    from pbt.props import C12

    def one_input(data):
        res = C12.o_split(data.decode("utf-8", "replace"))
        if res[0] is not None:
            raise OracleFailure(res[0][0])

elif TARGET == "C13":
    from pbt.props import C13

    def one_input(data):
        res = C13.o_parse(data.decode("utf-8", "replace"))
        if res[0] is not None:
            raise OracleFailure(res[0][0])

else:
    raise SystemExit("unknown FUZZ_TARGET " + TARGET)


if __name__ == "__main__":
    atheris.Setup(sys.argv, one_input)
    atheris.Fuzz()
