"""Comparison helpers that do not depend on Block.__eq__ (DESIGN.md 2.5)."""
import dataclasses

from bibtexparser.library import Library
from bibtexparser.model import Block, Field

_ATOMS = (str, int, float, bool, type(None), bytes)


def canon(obj, _memo=None, ignore=()):
    """Recursive canonical form (nested tuples).  `ignore`: attribute names to leave out."""
    if _memo is None:
        _memo = set()
    if isinstance(obj, _ATOMS):
        return (type(obj).__name__, obj)
    oid = id(obj)
    if oid in _memo:
        return ("<cycle>", type(obj).__name__)
    _memo = _memo | {oid}
    if isinstance(obj, (list, tuple)):
        return (type(obj).__name__,) + tuple(canon(x, _memo, ignore) for x in obj)
    if isinstance(obj, dict):
        items = [(canon(k, _memo, ignore), canon(v, _memo, ignore)) for k, v in obj.items()]
        return ("dict",) + tuple(sorted(items, key=repr))
    if isinstance(obj, (set, frozenset)):
        return ("set",) + tuple(sorted((canon(x, _memo, ignore) for x in obj), key=repr))
    if isinstance(obj, BaseException):
        d = {k: v for k, v in getattr(obj, "__dict__", {}).items() if k not in ignore}
        return ("exc", type(obj).__name__, canon(list(obj.args), _memo, ignore), canon(d, _memo, ignore))
    if isinstance(obj, Library):
        blocks = obj.blocks
        pos = {id(b): i for i, b in enumerate(blocks)}

        def idx(d):
            out = []
            for k, v in d.items():
                out.append((canon(k), pos.get(id(v), canon(v, _memo, ignore))))
            return tuple(sorted(out, key=repr))

        return (
            "Library",
            canon(list(blocks), _memo, ignore),
            ("entries_by_key",) + idx(obj._entries_by_key),
            ("strings_by_key",) + idx(obj._strings_by_key),
        )
    if isinstance(obj, type):
        return ("type", obj.__module__ + "." + obj.__qualname__)
    d = getattr(obj, "__dict__", None)
    if d is not None:
        items = [(k, canon(v, _memo, ignore)) for k, v in sorted(d.items()) if k not in ignore]
        return (type(obj).__name__,) + tuple(items)
    return ("obj", type(obj).__name__, repr(obj))


def mutable_ids(obj, _seen=None):
    """ids of every mutable object reachable from obj (exceptions and immutables excluded)."""
    if _seen is None:
        _seen = {}
    if isinstance(obj, _ATOMS) or isinstance(obj, (BaseException, type)):
        return _seen
    oid = id(obj)
    if oid in _seen:
        return _seen
    if isinstance(obj, tuple) or isinstance(obj, frozenset):
        for x in obj:
            mutable_ids(x, _seen)
        return _seen
    _seen[oid] = type(obj).__name__
    if isinstance(obj, (list, set)):
        for x in obj:
            mutable_ids(x, _seen)
    elif isinstance(obj, dict):
        for k, v in obj.items():
            mutable_ids(k, _seen)
            mutable_ids(v, _seen)
    else:
        d = getattr(obj, "__dict__", None)
        if d is not None:
            for v in d.values():
                mutable_ids(v, _seen)
    return _seen


def line_of(text, pos):
    return text.count("\n", 0, pos)


def describe(obj, n=300):
    r = repr(canon(obj))
    return r if len(r) <= n else r[:n] + "..."
