"""C06 - written text obeys the BibtexFormat contract and carries every block's content."""
import itertools

import bibtexparser
from bibtexparser import writer as bwriter
from bibtexparser.model import (
    Block,
    Entry,
    ExplicitComment,
    ImplicitComment,
    ParsingFailedBlock,
    Preamble,
    String,
)
from bibtexparser.writer import BibtexFormat

from .. import harness, libgen
from ..compare import canon

PROP = "C06"
MODNAME = __name__

DEFAULT_FAILED_COMMENT = "% WARNING Parsing failed for the following {n} lines."  # documented default text


N_ANY = "\x00any-number\x00"


def same_text(text, exp):
    """text == exp, where every N_ANY in exp stands for some decimal number."""
    if N_ANY not in exp:
        return text == exp
    import re

    return re.fullmatch(re.escape(exp).replace(re.escape(N_ANY), "[0-9]+"), text, re.S) is not None


def ref_render(lib, f):
    """Reference renderer written from the statement (and the forms pinned by tests/test_writer.py)."""
    indent = f.get("indent", "\t")
    vc = f.get("value_column", 0)
    comma = f.get("trailing_comma", False)
    sep = f.get("block_separator", "\n\n")
    failed_comment = f["parsing_failed_comment"] if f.get("parsing_failed_comment") is not None else DEFAULT_FAILED_COMMENT  # '' is a comment too
    if vc == "auto":
        longest = 0
        for b in lib.blocks:
            if isinstance(b, Entry):
                for fld in b.fields:
                    longest = max(longest, len(fld.key))
        vc = longest + 3
    out = []
    for b in lib.blocks:
        if isinstance(b, Entry):
            s = "@" + b.entry_type + "{" + b.key + ",\n"
            n = len(b.fields)
            for i, fld in enumerate(b.fields):
                pad = " " * max(0, vc - len(fld.key) - 3)
                s += indent + fld.key + pad + " = " + fld.value
                if i < n - 1 or comma:
                    s += ","
                s += "\n"
            s += "}\n"
        elif isinstance(b, String):
            s = "@string{" + b.key + " = " + b.value + "}\n"
        elif isinstance(b, Preamble):
            s = "@preamble{" + b.value + "}\n"
        elif isinstance(b, ExplicitComment):
            # the closing bracket must stay structural: a blank separates it from a trailing backslash
            s = "@comment{" + b.comment + (" " if b.comment.endswith("\\") else "") + "}\n"
        elif isinstance(b, ImplicitComment):
            s = b.comment + "\n"
        elif isinstance(b, ParsingFailedBlock):
            # {n}: the number of lines of the raw text. Where "lines" is ambiguous (an empty raw, a raw ending in a line
            # break, line breaks other than LF) the statement fixes no number - any number is accepted there (N_ANY);
            # the raw text itself is emitted verbatim in every case.
            plain = b.raw != "" and not b.raw.endswith("\n") and len(b.raw.splitlines()) == b.raw.count("\n") + 1
            s = failed_comment.format(n=(b.raw.count("\n") + 1) if plain else N_ANY) + "\n" + b.raw + "\n"
        else:
            raise harness.HarnessError("unknown block")
        out.append(s)
    return sep.join(out)


def o_write(inp):
    """inp: {"lib": [block specs], "fmt": format spec | None, "via": "writer"|"write_string"}"""
    lib = libgen.build_library(inp["lib"])
    fspec = inp["fmt"]
    fmt = libgen.build_format(fspec) if fspec is not None else None
    f = fspec or {}
    st0 = libgen.format_state(fmt) if fmt is not None else None
    lib0 = canon(lib)
    if inp.get("via") == "write_string":
        text = bibtexparser.write_string(lib, unparse_stack=[], bibtex_format=fmt)
    else:
        text = bwriter.write(lib, fmt)
    cls = []
    entries = [b for b in lib.blocks if isinstance(b, Entry)]
    vc = f.get("value_column", 0)
    if vc == "auto":
        cls.append("auto")
        if len(entries) >= 2:
            cls.append("auto>=2entries")
    elif any(len(fl.key) + 3 > vc for e in entries for fl in e.fields) and vc > 0:
        cls.append("key-longer-than-column")
    if f.get("indent", "\t") == "":
        cls.append("empty-indent")
    if any(not e.fields for e in entries) and f.get("trailing_comma"):
        cls.append("zero-fields+trailing-comma")
    failed = [b for b in lib.blocks if isinstance(b, ParsingFailedBlock)]
    if failed and f.get("parsing_failed_comment"):
        cls.append("failed+custom-comment")
    if failed:
        cls.append("failed-block")
    if len(f.get("block_separator", "\n\n").strip()) > 0:
        cls.append("non-blank-separator")
    if any(sp["t"] == "same" for sp in inp["lib"]) or any(isinstance(fs, dict) for sp in inp["lib"] if sp["t"] == "entry" for fs in sp["fields"]):
        cls.append("same-object-held-twice")
    if any(sp.get("sub") for sp in inp["lib"]):
        cls.append("subclass-instance")
    nontrivial = any(len(e.fields) >= 2 for e in entries) and fspec is not None
    if not isinstance(text, str):
        return (("type", repr(text), "str"), nontrivial, cls)
    # 3. the format object and the library are left unchanged
    if fmt is not None and libgen.format_state(fmt) != st0:
        return (("format-mutated", repr(libgen.format_state(fmt)), repr(st0)), nontrivial, cls)
    if canon(lib) != lib0:
        return (("library-mutated", "library changed by writing", "unchanged"), nontrivial, cls)
    # 1. reference renderer
    exp = ref_render(lib, f)
    if N_ANY in exp:
        cls.append("failed-raw-with-ambiguous-line-count")
    if not same_text(text, exp):
        # classify by the first differing block for a useful signature
        sig = "render"
        if failed and f.get("parsing_failed_comment") and f["parsing_failed_comment"].format(n=1)[:5] not in text:
            sig = "render:failed-comment"
        elif vc == "auto":
            sig = "render:auto"
        return ((sig, repr(text), repr(exp)), nontrivial, cls)
    # 2. direct predicates, independent of the renderer
    sep = f.get("block_separator", "\n\n")
    if lib.blocks and sep and sep.strip() and text.endswith(sep):
        return (("separator-after-last", repr(text[-30:]), "no separator after the last block"), nontrivial, cls)
    return (None, nontrivial, cls)


def o_columns(inp):
    """Direct column predicate on single-line values: inp {"keys": [[k...] per entry], "fmt": spec}."""
    f = inp["fmt"]
    specs = []
    for i, ks in enumerate(inp["keys"]):
        specs.append({"t": "entry", "type": "a", "key": "k%d" % i, "fields": [[k, "{V%d_%d}" % (i, j), 0] for j, k in enumerate(ks)], "line": 0, "raw": "r"})
    lib = libgen.build_library(specs)
    fmt = libgen.build_format(f)
    text = bwriter.write(lib, fmt)
    indent = f.get("indent", "\t")
    vc = f.get("value_column", 0)
    allkeys = [k for ks in inp["keys"] for k in ks]
    cls = ["columns"]
    cols = []
    lines = text.split("\n")
    commas = 0
    for i, ks in enumerate(inp["keys"]):
        for j, k in enumerate(ks):
            marker = "{V%d_%d}" % (i, j)
            hits = [ln for ln in lines if marker in ln]
            if len(hits) != 1:
                return (("field-line-count", repr(hits), "exactly one line per field"), True, cls)
            ln = hits[0]
            col = ln.index(marker)
            if not ln.startswith(indent + k):
                return (("field-line-prefix", repr(ln), f"starts with indent+key {indent + k!r}"), True, cls)
            if ln[col - 3 : col] != " = ":
                return (("field-separator", repr(ln), "' = ' directly before the value"), True, cls)
            cols.append((k, col))
            last = j == len(ks) - 1
            has_comma = ln.endswith(",")
            if has_comma != ((not last) or bool(f.get("trailing_comma"))):
                return (("comma-rule", repr(ln), f"comma={'yes' if (not last) or f.get('trailing_comma') else 'no'}"), True, cls)
    if vc == "auto":
        if cols:
            want = len(indent) + max(len(k) for k in allkeys) + 3
            if any(c != want for _, c in cols):
                return (("auto-column", repr(cols), f"all values at column {want}"), True, cls)
    else:
        for k, c in cols:
            want = len(indent) + vc if len(k) + 3 <= vc else len(indent) + len(k) + 3
            if c != want:
                return (("value-column", f"key {k!r} value at column {c}", f"column {want}"), True, cls)
    return (None, len(allkeys) >= 2, cls)


def o_setter(inp):
    """value_column validation: inp {"value": v}"""
    v = inp["value"]
    fmt = BibtexFormat()
    valid = (isinstance(v, int) and not isinstance(v, bool) and v >= 0) or v == "auto" or (isinstance(v, bool))
    try:
        fmt.value_column = v
        ok = True
    except ValueError:
        ok = False
    if isinstance(v, bool):
        return (None, False, ("setter",))  # bools are ints in Python; not specified
    if ok != valid:
        return (("setter-validation", f"value_column={v!r} {'accepted' if ok else 'rejected'}", "accepted" if valid else "ValueError"), True, ("setter",))
    if ok and fmt.value_column != v:
        return (("setter-stored", repr(fmt.value_column), repr(v)), True, ("setter",))
    return (None, True, ("setter",))


class _OddBlock(Block):
    """A block type the writer has no rule for."""


def o_reuse(inp):
    """One BibtexFormat object used for several writes with its settings changed in between:
    inp {"lib": [block specs], "fmts": [format spec, ...]} - every write must obey the settings current at that time."""
    lib = libgen.build_library(inp["lib"])
    fmt = BibtexFormat()
    for i, f in enumerate(inp["fmts"]):
        for k in libgen.FORMAT_ATTRS:
            if k in f and f[k] is not None:
                setattr(fmt, k, f[k])
        cur = {k: getattr(fmt, k) for k in libgen.FORMAT_ATTRS}
        if i in (inp.get("interrupt") or ()):
            # a write that goes wrong half-way (the library ends in a block of a type the writer does not know) must
            # leave the caller's format object as it was; whether and what it raises is not this property's subject
            odd = libgen.build_library(inp["lib"])
            odd.add(_OddBlock(0, "odd"))
            try:
                bwriter.write(odd, fmt)
            except Exception:
                pass
            if {k: getattr(fmt, k) for k in libgen.FORMAT_ATTRS} != cur:
                return (("reuse:format-mutated-by-failed-write", repr({k: getattr(fmt, k) for k in libgen.FORMAT_ATTRS}), repr(cur)), True, ("format-reuse", "interrupted-write"))
        text = bwriter.write(lib, fmt)
        exp = ref_render(lib, cur)
        if not same_text(text, exp):
            return (("reuse:stale-format-state", f"write #{i} with {cur!r}: {text!r}", repr(exp)), True, ("format-reuse",))
        if {k: getattr(fmt, k) for k in libgen.FORMAT_ATTRS} != cur:
            return (("reuse:format-mutated", repr({k: getattr(fmt, k) for k in libgen.FORMAT_ATTRS}), repr(cur)), True, ("format-reuse",))
    return (None, len(inp["fmts"]) >= 2, ("format-reuse",) + (("interrupted-write",) if inp.get("interrupt") else ()))


def o_edited(inp):
    """A library that is read (views, a first write) and then edited through the public model API must be written
    as it is *now*: inp {"lib": [specs], "fmt": spec, "edits": [[block index, kind, args...]]}
    kinds: rename (field index, new key) | setvalue (field index, value) | swapfield (field index, key, value) |
           entrykey (key) | replaceblock (entry spec) | addfield (key, value)"""
    lib = libgen.build_library(inp["lib"])
    f = inp["fmt"] or {}
    fmt = libgen.build_format(f)
    # warm every view / cache a lazy implementation might keep
    _ = lib.entries, lib.entries_dict, lib.strings, lib.failed_blocks
    for b in lib.blocks:
        if isinstance(b, Entry):
            _ = b.fields_dict, b.items()
    bwriter.write(lib, fmt)
    n_applied = 0
    for ed in inp["edits"]:
        bi, kind = ed[0], ed[1]
        if not lib.blocks:
            break
        b = lib.blocks[bi % len(lib.blocks)]
        if kind == "replaceblock":
            new = libgen.build_block(dict(ed[2], t="entry"))
            try:
                lib.replace(b, new, fail_on_duplicate_key=False)
                n_applied += 1
            except ValueError:
                pass
            continue
        if not isinstance(b, Entry):
            continue
        if kind == "entrykey":
            b.key = ed[2]
        elif kind == "addfield":
            b.set_field(libgen.Field(ed[2], ed[3]))
        elif b.fields:
            fi = ed[2] % len(b.fields)
            if kind == "rename":
                b.fields[fi].key = ed[3]
            elif kind == "setvalue":
                b.fields[fi].value = ed[3]
            elif kind == "swapfield":
                b.fields[fi] = libgen.Field(ed[3], ed[4])
            else:
                raise harness.HarnessError(f"unknown edit {ed!r}")
        else:
            continue
        n_applied += 1
    # lists handed out by the views are the caller's: trimming one changes nothing the writer sees
    for handed_out in (lib.entries, lib.strings, lib.failed_blocks, lib.comments, lib.preambles):
        del handed_out[len(handed_out) // 2:]
    lib.entries_dict.clear()
    text = bwriter.write(lib, fmt)
    exp = ref_render(lib, f)
    cls = ["edited-after-read"]
    if not same_text(text, exp):
        return (("edited:stale-view", repr(text), repr(exp)), True, cls)
    return (None, n_applied > 0, cls)


SUBS = {"write": o_write, "columns": o_columns, "setter": o_setter, "reuse": o_reuse, "edited": o_edited}

FIXED_LIBS = [
    [{"t": "entry", "type": "article", "key": "k", "fields": [["a", "{1}", 0], ["title", "{T}", 1], ["averyveryverylongkeyindeed", "{L}", 2]], "line": 0, "raw": "r"},
     {"t": "failed", "raw": "@a{x,\n y", "line": 5},
     {"t": "entry", "type": "book", "key": "z", "fields": [], "line": 9, "raw": "r"}],
    [{"t": "string", "key": "s", "value": '"v"', "line": 0, "raw": "r"}, {"t": "preamble", "value": "{p}", "line": 1, "raw": "r"},
     {"t": "ecomment", "comment": "c", "line": 2, "raw": "r"}, {"t": "icomment", "comment": "% x", "line": 3, "raw": "r"},
     {"t": "entry", "type": "misc", "key": "m", "fields": [["k123456", "{v}", 4]], "line": 4, "raw": "r"},
     {"t": "entry", "type": "misc", "key": "m", "fields": [["kk", "{dup}", 7]], "line": 6, "raw": "@misc{m, kk = {dup}}"}],
    [],
    # one object held several times (a separator comment added again and again, a Field object listed twice)
    [{"t": "ecomment", "comment": "-----", "line": 0, "raw": "r"},
     {"t": "entry", "type": "article", "key": "k", "fields": [["a", "{1}", 0], ["bb", "{2}", 1], {"same": 0}], "line": 1, "raw": "r"},
     {"t": "same", "of": 0},
     {"t": "failed", "raw": "@a{x,\n y", "line": 5},
     {"t": "same", "of": 3},
     {"t": "icomment", "comment": "% x", "line": 3, "raw": "r"},
     {"t": "same", "of": 0}],
    # a library as parsed from a file this writer produced earlier: its warning lines are free-text comments now,
    # directly above the failed blocks (which get their warning again); one very long key
    [{"t": "icomment", "comment": "% WARNING Parsing failed for the following 2 lines.", "line": 0, "raw": "r"},
     {"t": "failed", "raw": "@a{x,\n y", "line": 1},
     {"t": "icomment", "comment": "% FAILED (1 lines)", "line": 3, "raw": "r"},
     {"t": "failed", "raw": "@b{z", "line": 4},
     {"t": "entry", "type": "article", "key": "k", "fields": [["doi", "{1}", 6], ["k" * 70, "{2}", 7], ["title", "{T}", 8]], "line": 5, "raw": "r"},
     {"t": "icomment", "comment": "% WARNING Parsing failed for the following 1 lines.", "line": 9, "raw": "r"},
     {"t": "failed", "raw": "@c{", "line": 10}],
    # every kind of failed block and instances of application-defined subclasses of the model classes
    [{"t": "entry", "type": "article", "key": "k", "fields": [["a", "{1}", 0], ["title", "{T}", 1]], "line": 0, "raw": "r", "sub": True},
     {"t": "dupfield", "entry": {"type": "misc", "key": "d", "fields": [["a", "{1}", 3], ["a", "{2}", 3]], "line": 3, "raw": "@misc{d, a = {1}, a = {2}}"}, "keys": ["a"]},
     {"t": "mwerror", "entry": {"type": "misc", "key": "m", "fields": [["author", "{A, B, C, D}", 5]], "line": 5, "raw": "@misc{m, author = {A, B, C, D}}"}, "err": "invalidname"},
     {"t": "ecomment", "comment": "sub", "line": 6, "raw": "r", "sub": True},
     {"t": "failed", "raw": "@a{x,\n y", "line": 7, "sub": True},
     {"t": "entry", "type": "misc", "key": "k", "fields": [["kk", "{dup}", 9]], "line": 9, "raw": "@misc{k, kk = {dup}}"}],
]


def w_grid(acc):
    for li, lib in enumerate(FIXED_LIBS):
        for vc in list(range(0, 41)) + ["auto", 66, 100, 140]:
            for indent in ("\t", "", "  ", "--"):
                for comma in (False, True):
                    for sep in ("\n\n", "", "\n-----\n"):
                        for fc in (None, "% FAILED ({n} lines)") + (("",) if vc in (0, 7, "auto") and indent == "\t" else ()):
                            f = {"indent": indent, "value_column": vc, "trailing_comma": comma, "block_separator": sep, "parsing_failed_comment": fc}
                            acc.run("write", o_write, {"lib": lib, "fmt": f, "via": "writer"}, True)
        acc.run("write", o_write, {"lib": lib, "fmt": None, "via": "writer"}, True)
        acc.run("write", o_write, {"lib": lib, "fmt": None, "via": "write_string"}, True)
    for lib in FIXED_LIBS[:2]:
        for a, b, c in itertools.permutations([0, 5, 12, 30, "auto"], 3):
            for ind in ("\t", ""):
                acc.run("reuse", o_reuse, {"lib": lib, "fmts": [{"value_column": a, "indent": ind}, {"value_column": b, "trailing_comma": True}, {"value_column": c, "indent": "  ", "block_separator": "\n"}], "interrupt": [(len(ind) + len(str(a))) % 3]}, True)
    long_entry = {"type": "misc", "key": "new1", "fields": [["averyveryverylongfieldkeyindeed_andmore", "{v}", 0]], "line": 0, "raw": "r"}
    for lib in FIXED_LIBS[:2]:
        for vc in ("auto", 0, 12):
            for edits in ([[0, "rename", 0, "a_much_longer_key_than_any_other_one"]], [[0, "rename", 2, "k"]], [[0, "swapfield", 1, "xy", "{N}"]], [[0, "setvalue", 0, "{changed}"]],
                          [[1, "replaceblock", long_entry]], [[3, "replaceblock", long_entry]], [[0, "entrykey", "renamed"]], [[0, "addfield", "zzzzzzzzzzzzzzzzzzzzzzzzzzzzzzzzzzzz", "{n}"]],
                          [[4, "rename", 0, "k"], [4, "addfield", "k2", "{x}"]]):
                acc.run("edited", o_edited, {"lib": lib, "fmt": {"value_column": vc, "indent": " "}, "edits": edits}, True)
    for v in [-1, -5, 0, 1, 40, 1000, "auto", "Auto", "", "10", None, 1.5, [1], -(10**9)]:
        acc.run("setter", o_setter, {"value": v}, True)


def w_large(acc, n):
    entry = {"t": "entry", "type": "misc", "key": "big", "fields": [["k%d" % i + "x" * (i % 23), "{v%d}" % i, i] for i in range(n)], "line": 0, "raw": "r"}
    many = [{"t": "entry", "type": "a", "key": "e%d" % i, "fields": [["f" + "y" * (i % 17), "{%d}" % i, 0]], "line": i, "raw": "r"} if i % 5 else {"t": "failed", "raw": "@bad{%d,\n x" % i, "line": i} for i in range(n)]
    for f in ({"value_column": "auto"}, {"value_column": 12, "trailing_comma": True, "block_separator": "\n"}, None):
        acc.run("write", o_write, {"lib": [entry], "fmt": f, "via": "writer"}, True)
        acc.run("write", o_write, {"lib": many, "fmt": f, "via": "write_string"}, True)
    acc.classes["large-library"] += 1


def w_columns(acc, lo, hi):
    keysets = []
    pool = ["a", "ab", "abcdefg", "abcdefghijklmnopqrstuvwxyzabcd"]
    for n in range(0, 4):
        for ks in itertools.product(pool, repeat=n):
            keysets.append(list(ks))
    cases = []
    for ks in keysets:
        for ks2 in ([], ["zz"], ["abcdefghijkl", "b"]):
            for vc in [0, 1, 3, 4, 5, 9, 10, 11, 33, 34, 40, "auto"]:
                for indent in ("\t", "", "   "):
                    for comma in (False, True):
                        cases.append({"keys": [ks, ks2] if ks2 else [ks], "fmt": {"indent": indent, "value_column": vc, "trailing_comma": comma, "block_separator": "\n\n"}})
    harness.run_cases(acc, "columns", o_columns, cases[lo:hi], True)


N_COLUMN_CASES = (1 + 4 + 16 + 64) * 3 * 12 * 3 * 2


def w_random(acc, n, seed):
    from hypothesis import strategies as st

    strat = st.fixed_dictionaries({"lib": libgen.st_writer_library(), "fmt": st.one_of(st.none(), libgen.st_format(), libgen.st_format()), "via": st.sampled_from(["writer", "write_string"])})
    harness.run_hyp(acc, "write", o_write, strat, n, seed)
    fkey = st.text(alphabet="abcdefghijklmnopqrstuvwxyz", min_size=1, max_size=30)
    cols = st.fixed_dictionaries({"keys": st.lists(st.lists(fkey, max_size=6), min_size=1, max_size=4),
                                  "fmt": libgen.st_format(separators=["\n\n", "\n", ""], comments=False)})
    harness.run_hyp(acc, "columns", o_columns, cols, max(100, n // 3), seed)
    reuse = st.fixed_dictionaries({"lib": libgen.st_writer_library(5), "fmts": st.lists(libgen.st_format(), min_size=2, max_size=4), "interrupt": st.lists(st.integers(0, 3), max_size=2)})
    harness.run_hyp(acc, "reuse", o_reuse, reuse, max(100, n // 6), seed)
    fk = st.sampled_from(["a", "k", "title", "a_much_longer_key_than_any_other_one", "zz"])
    edit = st.one_of(
        st.tuples(st.integers(0, 7), st.just("rename"), st.integers(0, 5), fk).map(list),
        st.tuples(st.integers(0, 7), st.just("setvalue"), st.integers(0, 5), st.sampled_from(["{n}", '"q"', "12"])).map(list),
        st.tuples(st.integers(0, 7), st.just("swapfield"), st.integers(0, 5), fk, st.just("{s}")).map(list),
        st.tuples(st.integers(0, 7), st.just("addfield"), fk, st.just("{a}")).map(list),
        st.tuples(st.integers(0, 7), st.just("entrykey"), st.sampled_from(["nk", "k"])).map(list),
    )
    edited = st.fixed_dictionaries({"lib": libgen.st_writer_library(5), "fmt": libgen.st_format(comments=False), "edits": st.lists(edit, min_size=1, max_size=3)})
    harness.run_hyp(acc, "edited", o_edited, edited, max(100, n // 6), seed)
    harness.run_hyp(acc, "setter", o_setter, st.fixed_dictionaries({"value": st.one_of(st.integers(-50, 100), st.text(max_size=5), st.floats(allow_nan=False), st.none())}), 200, seed)


def run(chk):
    quick = chk.tier == "quick"
    tasks = [("w_grid", ())] + [("w_large", (n,)) for n in (130, 300, 1100)]
    for lo, hi in harness.chunks(N_COLUMN_CASES, 12):
        tasks.append(("w_columns", (lo, hi)))
    n_rand = 20000 if quick else 400000
    shards = 8 if quick else 32
    for s in range(shards):
        tasks.append(("w_random", (n_rand // shards, harness.seed_for(chk.seed, PROP, s))))
    harness.pmap(chk.acc, MODNAME, tasks)
    chk.acc.exhaustive["format-grid"] = "3 fixed libraries x value_column 0..40 and 'auto' x 4 indents x trailing comma x 3 separators x 2 failed-block comments"
    chk.acc.exhaustive["column-grid"] = "all key tuples of 0..3 fields over 4 key lengths (1, 2, 7, 30) x optional second entry x 12 value_column settings x 3 indents x trailing comma"
    chk.rule = (
        "cases = (library spec, format spec). Engines: the finite grids above and Hypothesis libraries of 0-8 blocks of every "
        "kind (entries with 0-6 fields and keys of length 1-30, strings, preambles, both comment kinds, plain / duplicate-key "
        "/ duplicate-field / middleware-error failed blocks with multi-line raw) x formats (indent, value_column 0..40 / "
        "'auto', trailing comma, blank and non-blank separators, custom failed-block comment). Oracle: exact equality with a "
        "reference renderer written from the statement; renderer-independent predicates on single-line values (one line per "
        "field, indent+key prefix, ' = ' before the value, value column, comma rule, auto column minimal and common); format "
        "and library unchanged; value_column setter validation. Non-trivial: an entry with >= 2 fields under a non-default "
        "format (write), >= 2 fields (columns); distinct by case."
    )
    chk.required_classes = ["auto", "auto>=2entries", "key-longer-than-column", "empty-indent", "zero-fields+trailing-comma", "failed+custom-comment", "non-blank-separator", "columns", "setter", "format-reuse", "interrupted-write", "edited-after-read", "same-object-held-twice", "subclass-instance"]
