"""C17 - field sorting and key normalisation only permute/merge fields; values intact."""
import itertools

from bibtexparser.library import Library
from bibtexparser.middlewares import NormalizeFieldKeys, SortFieldsAlphabeticallyMiddleware, SortFieldsCustomMiddleware
from bibtexparser.model import Entry, ExplicitComment, Field, String

from .. import harness, libgen
from ..compare import canon

PROP = "C17"
MODNAME = __name__

KEYS = ["a", "A", "b", "B", "ab", "Ab", "c"]
ORDER_KEYS = ["a", "A", "b", "B", "c"]


def all_orders(max_len=4):
    out = []
    for k in range(0, max_len + 1):
        for sub in itertools.permutations(ORDER_KEYS, k):
            out.append(list(sub))
    return out


def order_has_duplicates(order, case_sensitive):
    folded = list(order) if case_sensitive else [x.lower() for x in order]
    return len(set(folded)) != len(folded)


def _mk(inp):
    fields = [Field(k, "v%d" % i, 10 + i) for i, k in enumerate(inp["keys"])]
    entry = Entry("Article", "Key1", fields, start_line=5, raw="@Article{Key1, ...}")
    before = String("JrnlS", '"x"', 0, '@string{JrnlS = "x"}')  # names of other blocks are not field keys
    other = Entry("book", "other", [Field("B", "1", 30), Field("a", "2", 31), Field("A", "3", 32)], start_line=29, raw="@book{other,...}")
    after = ExplicitComment("c", 40, "@comment{c}")
    return fields, entry, [before, entry, other, after]


def _make_mw(inp):
    kw = dict(allow_inplace_modification=inp["inplace"])
    if inp["mw"] == "alpha":
        return libgen.construct(SortFieldsAlphabeticallyMiddleware, kw, inp.get("keys"))
    if inp["mw"] == "custom":
        return libgen.construct(SortFieldsCustomMiddleware, dict(kw, order=tuple(inp["order"]), case_sensitive=inp["case_sensitive"]), (inp.get("keys"), inp["order"]))
    return libgen.construct(NormalizeFieldKeys, kw, inp.get("keys"))


def o_fields(inp):
    """inp: {"keys": [...], "mw": alpha|custom|normalize, "order": [...], "case_sensitive": bool, "inplace": bool}"""
    keys = inp["keys"]
    cls = [inp["mw"], "inplace" if inp["inplace"] else "copy"]
    low = [k.lower() for k in keys]
    if len(set(low)) < len(low):
        cls.append("case-collision")
    if len(set(keys)) < len(keys):
        cls.append("exact-duplicate-key")
    if inp["mw"] == "custom":
        dup = order_has_duplicates(inp["order"], inp["case_sensitive"])
        try:
            mw = _make_mw(inp)
        except ValueError:
            if not dup:
                return (("ctor-raised", f"order {inp['order']!r} case_sensitive={inp['case_sensitive']}", "accepted"), True, cls)
            return (None, True, cls + ["ctor-rejects-duplicates"])
        if dup:
            return (("ctor-accepted-duplicates", f"order {inp['order']!r} case_sensitive={inp['case_sensitive']}", "ValueError"), True, cls)
    else:
        mw = _make_mw(inp)
    fields, entry, blocks = _mk(inp)
    lib = Library(blocks)
    if inp.get("prior"):
        # sort -> edit -> sort: the entry has been through other (or the same) field middlewares in place before and
        # its field list was then put back by hand; what counts is the content it has now
        cls.append("resorted-after-edit")
        for ps in inp["prior"]:
            try:
                pm = _make_mw(dict(ps, inplace=True))
            except ValueError:
                continue
            pm.transform(lib)
        entry.fields = list(fields)
        for f, k in zip(fields, keys):
            f.key = k
    others_before = [canon(b) for b in blocks if b is not entry]
    out = libgen.maybe_preuse(mw, inp["keys"], same=lib).transform(lib)
    if len(out.blocks) != 4:
        return (("block-count", repr(out.blocks), "4 blocks"), True, cls)
    e = out.blocks[1]
    if not isinstance(e, Entry):
        return (("entry-replaced", repr(e), "Entry"), True, cls)
    if (e.entry_type, e.key, e.raw, e.start_line) != ("Article", "Key1", "@Article{Key1, ...}", 5):
        return (("entry-attrs", repr((e.entry_type, e.key, e.raw, e.start_line)), "type/key/raw/start line untouched"), True, cls)
    # other blocks: only the other entry may be touched, and only in the same way (checked by its own case elsewhere)
    ob = [out.blocks[0], out.blocks[3]]
    if [canon(b) for b in ob] != [others_before[0], others_before[2]]:
        return (("other-blocks", repr(ob), "string and comment untouched"), True, cls)
    vals = [f.value for f in e.fields]
    src = {f"v{i}": i for i in range(len(keys))}
    if any(not isinstance(v, str) or v not in src for v in vals):
        return (("value-altered", repr(vals), f"values among {sorted(src)!r}"), True, cls)
    idx = [src[v] for v in vals]
    nontrivial = False
    if inp["mw"] in ("alpha", "custom"):
        # exactly the entry's fields, each pair once
        if sorted(idx) != list(range(len(keys))) or [f.key for f in e.fields] != [keys[i] for i in idx]:
            return (("not-a-permutation", repr([(f.key, f.value) for f in e.fields]), f"a permutation of {list(zip(keys, sorted(src)))!r}"), True, cls)
        if inp["mw"] == "alpha":
            sk = [keys[i] for i in idx]
        else:
            order = list(inp["order"]) if inp["case_sensitive"] else [x.lower() for x in inp["order"]]
            sk = []
            for i in idx:
                k = keys[i] if inp["case_sensitive"] else keys[i].lower()
                sk.append(order.index(k) if k in order else len(order))
        for p in range(len(idx) - 1):
            if sk[p] > sk[p + 1]:
                return ((f"order:{inp['mw']}", repr([f.key for f in e.fields]), f"sort keys non-decreasing, got {sk!r}"), True, cls)
            if sk[p] == sk[p + 1] and idx[p] > idx[p + 1]:
                return ((f"stability:{inp['mw']}", repr([(f.key, f.value) for f in e.fields]), "ties keep source order"), True, cls)
        if len(set(sk)) < len(sk):
            cls.append("tie")
        nontrivial = idx != sorted(idx) or len(set(sk)) < len(sk)
        if inp["inplace"] and any(f is not fields[i] for f, i in zip(e.fields, idx)):
            return (("inplace-new-objects", "fields replaced", "same Field objects"), True, cls)
    else:
        first_pos, last_idx = {}, {}
        for i, k in enumerate(low):
            first_pos.setdefault(k, i)
            last_idx[k] = i
        exp_keys = sorted(first_pos, key=first_pos.get)
        got_keys = [f.key for f in e.fields]
        if got_keys != exp_keys:
            return (("normalize:keys-order", repr(got_keys), repr(exp_keys)), True, cls)
        exp_idx = [last_idx[k] for k in exp_keys]
        if idx != exp_idx:
            return (("normalize:last-wins", repr([(f.key, f.value) for f in e.fields]), repr([(k, f"v{i}") for k, i in zip(exp_keys, exp_idx)])), True, cls)
        nontrivial = len(set(low)) < len(low) or low != keys
    # "changes no value": every Field object the caller handed in still holds its own value (also those that lost their
    # place in the entry to a later occurrence of their key)
    if any(f.value != "v%d" % i for i, f in enumerate(fields)):
        return ((f"input-field-value-changed:{inp['mw']}", repr([(f.key, f.value) for f in fields]), "every Field keeps its value v<i>"), True, cls)
    # idempotence
    out2 = _make_mw(inp).transform(out)
    e2 = out2.blocks[1]
    if not isinstance(e2, Entry) or [(f.key, f.value) for f in e2.fields] != [(f.key, f.value) for f in e.fields] or canon(e2, ignore=("_parser_metadata",)) != canon(e, ignore=("_parser_metadata",)):
        return ((f"idempotence:{inp['mw']}", repr(e2), repr(e)), True, cls)
    return (None, nontrivial, cls)


SUBS = {"fields": o_fields}


def priors_for(case):
    """Earlier in-place runs the entry went through before its fields were edited (picked by a hash of the case)."""
    import zlib

    same = {k: case[k] for k in ("mw", "order", "case_sensitive") if k in case}
    table = [
        [{"mw": "alpha"}],
        [same],
        [{"mw": "custom", "order": ["b", "a"], "case_sensitive": False}],
        [{"mw": "custom", "order": list(case.get("order") or ["c"]), "case_sensitive": not case.get("case_sensitive", False)}],
        [{"mw": "alpha"}, same],
        [same, {"mw": "alpha"}],
        [{"mw": "normalize"}],
        [same, same],
    ]
    return table[zlib.crc32(repr(sorted(case.items())).encode()) % len(table)]


def w_enum(acc, nfields, first_key, orders_slice, inplace_modes):
    orders = all_orders()
    lo, hi = orders_slice
    firsts = [first_key] if nfields else [None]
    for rest in itertools.product(KEYS, repeat=max(0, nfields - 1)):
        keys = ([first_key] + list(rest)) if nfields else []
        for inplace in inplace_modes:
            cases = []
            if lo == 0:
                cases.append({"keys": keys, "mw": "alpha", "inplace": inplace})
                cases.append({"keys": keys, "mw": "normalize", "inplace": inplace})
            for order in orders[lo:hi]:
                for cs in (False, True):
                    cases.append({"keys": keys, "mw": "custom", "order": order, "case_sensitive": cs, "inplace": inplace})
            for c in cases:
                acc.run("fields", o_fields, c, True)
                if 2 <= nfields <= 3:
                    acc.run("fields", o_fields, dict(c, prior=priors_for(c)), True)


def w_large(acc, n):
    keys = [KEYS[(i * 5 + i // 7) % len(KEYS)] + ("" if i % 3 else str(i % 11)) for i in range(n)]
    for inplace in (True, False):
        acc.run("fields", o_fields, {"keys": keys, "mw": "alpha", "inplace": inplace}, True)
        acc.run("fields", o_fields, {"keys": keys, "mw": "normalize", "inplace": inplace}, True)
        for cs in (True, False):
            acc.run("fields", o_fields, {"keys": keys, "mw": "custom", "order": ["b", "a1", "c"], "case_sensitive": cs, "inplace": inplace}, True)
    # long custom orders (the lookup must not change character with the length of the order list)
    few = [KEYS[(i * 5) % len(KEYS)] for i in range(12)] + ["K7", "k31", "Key12", "zz"]
    for m in (15, 16, 17, 18, 40, n):
        order = ["Key%d" % i if i % 2 else "k%d" % i for i in range(m)]
        for cs in (True, False):
            for inplace in (True, False):
                acc.run("fields", o_fields, {"keys": few + ["key3", "KEY5", "k2", "K4"], "mw": "custom", "order": order, "case_sensitive": cs, "inplace": inplace}, True)
    acc.classes["large-entry"] += 1


def w_ctor(acc):
    for order in all_orders(3) + [["a", "a"], ["a", "b", "a"], ["A", "b", "A"], ["a", "A", "a"]]:
        for cs in (False, True):
            acc.run("fields", o_fields, {"keys": ["b", "a"], "mw": "custom", "order": order, "case_sensitive": cs, "inplace": True}, True)


def w_random(acc, n, seed):
    from hypothesis import strategies as st

    keys = st.lists(st.sampled_from(KEYS + ["title", "Title", "TITLE", "year", "É", "é", "", "ß", "SS", "ss", "ſ", "S", "s", "İ", "i̇", "ǅ", "ǆ"]), max_size=8)
    order = st.lists(st.sampled_from(ORDER_KEYS + ["title", "Title", "year", "ab", "Ab", "É", "é", "ß", "ss", "ſ", "s"]), max_size=6)
    prior1 = st.one_of(st.just({"mw": "alpha"}), st.just({"mw": "normalize"}), st.fixed_dictionaries({"mw": st.just("custom"), "order": order, "case_sensitive": st.booleans()}))
    strat = st.fixed_dictionaries({"keys": keys, "mw": st.sampled_from(["alpha", "custom", "custom", "normalize"]), "order": order, "case_sensitive": st.booleans(), "inplace": st.booleans(),
                                   "prior": st.one_of(st.just([]), st.just([]), st.lists(prior1, min_size=1, max_size=3))})
    harness.run_hyp(acc, "fields", o_fields, strat, n, seed)


def run(chk):
    quick = chk.tier == "quick"
    maxf = 4 if quick else 5
    n_orders = len(all_orders())
    tasks = [("w_ctor", ())] + [("w_large", (n,)) for n in (130, 300, 1100)]
    for nf in range(0, maxf + 1):
        if nf <= 2:
            for k in (KEYS if nf else [None]):
                tasks.append(("w_enum", (nf, k, (0, n_orders), (True, False))))
        else:
            for k in KEYS:
                for sl in harness.chunks(n_orders, 4 if nf == 4 else (2 if nf == 3 else 12)):
                    tasks.append(("w_enum", (nf, k, sl, (True, False) if nf <= 3 or not quick else (True,))))
    n_rand = 16000 if quick else 400000
    shards = 8 if quick else 32
    for s in range(shards):
        tasks.append(("w_random", (n_rand // shards, harness.seed_for(chk.seed, PROP, s))))
    harness.pmap(chk.acc, MODNAME, tasks)
    chk.acc.exhaustive["fields"] = (
        f"every key tuple of 0..{maxf} fields over {KEYS!r} x alphabetical, normalisation and every custom order "
        f"(all {n_orders} permutations of subsets of size <= 4 of {ORDER_KEYS!r}) x case-sensitive/insensitive x in-place/copy"
        + (" (4 fields: in-place mode only)" if quick else "")
    )
    chk.rule = (
        "cases = (entry with distinctly valued fields whose keys collide case-insensitively, middleware, order, "
        "case_sensitive, in-place/copy), the entry embedded between a string, another entry and a comment. Oracle: "
        "permutation + non-decreasing sort keys + stability (sorting), first-occurrence order + last-wins value "
        "(normalisation), untouched entry attributes and neighbours, idempotence, constructor rejects exactly the "
        "orders with duplicates after folding. Histories: for 2-3 fields (and at random) the same case is repeated on an "
        "entry that went through one or two earlier in-place field middlewares (the same one, another order, the other "
        "case mode, alphabetical, normalisation) and whose field list was then put back - sort, edit, sort. Non-trivial: the order changed, a tie occurred or keys collided."
    )
    chk.required_classes = ["alpha", "custom", "normalize", "case-collision", "tie", "ctor-rejects-duplicates", "copy", "inplace", "resorted-after-edit"]
