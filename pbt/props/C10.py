"""C10 - enclosing removal strips exactly one layer; adding back restores or re-encloses."""
import itertools

from bibtexparser.library import Library
from bibtexparser.middlewares import AddEnclosingMiddleware, RemoveEnclosingMiddleware
from bibtexparser.model import Entry, Field, ParsingFailedBlock, String
from bibtexparser.splitter import Splitter

from .. import bibgen, harness, libgen, tokens

PROP = "C10"
MODNAME = __name__

NUMERIC_FIELDS = ["year", "month", "volume", "number", "pages", "edition", "chapter", "issue"]  # documented list
OTHER_KEYS = ["title", "Year", "note"]
OPTION_SETS = [(d, r, e) for d in ("{", '"') for r in (True, False) for e in (True, False)]


def strip1(v):
    s = v.strip()
    if len(s) >= 2 and s[0] == "{" and s[-1] == "}":
        return s[1:-1], "{"
    if len(s) >= 2 and s[0] == '"' and s[-1] == '"':
        return s[1:-1], '"'
    return s, "no-enclosing"


def balanced(v):
    """Unescaped braces balanced, depth never negative (escape rule: a brace after a backslash is literal)."""
    d = 0
    for i, c in enumerate(v):
        if i and v[i - 1] == "\\":
            continue
        if c == "{":
            d += 1
        elif c == "}":
            d -= 1
            if d < 0:
                return False
    return d == 0


def bare_quote_outside_braces(v):
    d = 0
    for i, c in enumerate(v):
        if i and v[i - 1] == "\\":
            continue
        if c == "{":
            d += 1
        elif c == "}":
            d -= 1
        elif c == '"' and d == 0:
            return True
    return False


def value_classes(v):
    out = []
    c, k = strip1(v)
    out.append("enclosed:" + k)
    if "{" in c:
        out.append("nested")
    if "#" in v:
        out.append("concatenation")
    if v == "":
        out.append("empty")
    if len(v) == 1:
        out.append("single-char")
    return out


def _lib(value, kind, key="title"):
    if kind == "string":
        return Library([String("s", value, 0, "raw")])
    return Library([Entry("article", "k", [Field("other", "{o}", 1), Field(key, value, 2)], 0, "raw")])


def _get(lib, kind, key="title"):
    b = lib.blocks[0]
    return b.value if kind == "string" else b.fields_dict[key].value


def o_strip_reuse(inp):
    """inp: {"value": v, "kind": "field"|"string", "inplace": bool}: sub-checks 1 (strip) and 2 (reuse restores)."""
    v, kind = inp["value"], inp["kind"]
    key = inp.get("key", "title")
    cls = value_classes(v) + [kind] + (["key-with-upper-case"] if key != key.lower() else [])
    nontrivial = any(c.startswith("enclosed:{") or c.startswith('enclosed:"') or c in ("nested", "concatenation", "empty", "single-char") for c in cls)
    lib = _lib(v, kind, key)
    rem = libgen.maybe_preuse(RemoveEnclosingMiddleware(allow_inplace_modification=inp["inplace"]), v, same=lib).transform(lib)
    want, wkind = strip1(v)
    got = _get(rem, kind, key)
    if got != want:
        return (("strip:content", f"{v!r} -> {got!r}", repr(want)), nontrivial, cls)
    b = rem.blocks[0]
    meta = b.parser_metadata.get("removed_enclosing")
    # the statement says the kind is recorded, not under which spelling of the key
    gkind = meta if kind == "string" else (meta or {}).get(key, (meta or {}).get(key.lower()))
    if gkind != wkind:
        return (("strip:recorded-kind", f"{v!r}: {meta!r}", repr(wkind)), nontrivial, cls)
    if kind == "field":
        if _get(rem, kind, "other") != "o" or meta.get("other") != "{":
            return (("strip:other-field", repr(rem.blocks[0].fields), "other field stripped and recorded too"), nontrivial, cls)
    if kind == "field":
        # a field that joins the entry after the removal has no recorded enclosing: it gets the default one
        rem.blocks[0].set_field(Field("addedlater", "new, value"))
        # ... and the integer rule applies to it as to any field without a recorded enclosing
        rem.blocks[0].set_field(Field("volume", "12"))
        rem.blocks[0].set_field(Field("number", 7))
    for d, r, e in OPTION_SETS:
        if not r:
            continue
        add = AddEnclosingMiddleware(reuse_previous_enclosing=True, enclose_integers=e, default_enclosing=d, allow_inplace_modification=False)
        back = libgen.maybe_preuse(add, (v, d, e), same=rem).transform(rem)
        if _get(back, kind, key) != v.strip():
            return (("reuse:not-restored", f"{key} = {v!r} -> {got!r} -> {_get(back, kind, key)!r} (default {d!r}, enclose_integers={e})", repr(v.strip())), nontrivial, cls)
        if kind == "field":
            want_added = "{new, value}" if d == "{" else '"new, value"'
            if _get(back, kind, "addedlater") != want_added:
                return (("reuse:unrecorded-field-not-default-enclosed", repr(_get(back, kind, "addedlater")), repr(want_added)), nontrivial, cls)
            for k2, v2 in (("volume", "12"), ("number", 7)):
                if key == k2:
                    continue
                got2 = _get(back, kind, k2)
                ok2 = (got2 == _enclose_ref(str(v2), d)) if e else (got2 == v2 or got2 == str(v2))
                if not ok2:
                    return (("reuse:unrecorded-numeric-field:integer-rule", f"{k2} = {v2!r} added after the removal -> {got2!r} (reuse, default {d!r}, enclose_integers={e})", "enclosed iff enclose_integers"), nontrivial, cls)
    # further cycles on the very same objects, in place: what was restored is stripped (one layer, kind recorded)
    # and restored again - the laws hold for every removal and addition, not only for the first on a fresh block
    cur = rem
    for cycle in (2, 3):
        add = AddEnclosingMiddleware(reuse_previous_enclosing=True, enclose_integers=True, default_enclosing="{" if cycle == 2 else '"', allow_inplace_modification=True)
        cur = add.transform(cur)
        if _get(cur, kind, key) != v.strip():
            return ((f"cycle:not-restored", f"cycle {cycle}: {v!r} -> {_get(cur, kind, key)!r}", repr(v.strip())), nontrivial, cls)
        cur = RemoveEnclosingMiddleware(allow_inplace_modification=True).transform(cur)
        if _get(cur, kind, key) != want:
            return ((f"cycle:strip", f"cycle {cycle}: {v!r} -> {_get(cur, kind, key)!r}", repr(want)), nontrivial, cls)
        meta = cur.blocks[0].parser_metadata.get("removed_enclosing")
        gkind = meta if kind == "string" else (meta or {}).get(key, (meta or {}).get(key.lower()))
        if gkind != wkind:
            return (("cycle:recorded-kind", f"cycle {cycle}: {v!r}: {meta!r}", repr(wkind)), nontrivial, cls)
    # two removals in a row (the middleware twice in a stack): each strips one layer of what is there *now* and records
    # what it found - the second one "no-enclosing" unless the content itself was enclosed once more
    twice = RemoveEnclosingMiddleware(allow_inplace_modification=True).transform(RemoveEnclosingMiddleware(allow_inplace_modification=True).transform(_lib(v, kind, key)))
    want2, wkind2 = strip1(want)
    if _get(twice, kind, key) != want2:
        return (("twice:strip", f"{v!r} -> {_get(twice, kind, key)!r}", repr(want2)), nontrivial, cls)
    meta = twice.blocks[0].parser_metadata.get("removed_enclosing")
    gkind = meta if kind == "string" else (meta or {}).get(key, (meta or {}).get(key.lower()))
    if gkind != wkind2:
        return (("twice:recorded-kind", f"{v!r}: {meta!r}", repr(wkind2)), nontrivial, cls)
    return (None, nontrivial, cls)


def o_reparse(inp):
    """inp: {"content": v, "default": '{'|'"'}: sub-check 3."""
    v, d = inp["content"], inp["default"]
    cls = ["reparse:" + d]
    in_domain = balanced(v) and not v.endswith("\\") and not bibgen.OPENER.search(v) and (d == "{" or not bare_quote_outside_braces(v))
    if not in_domain:
        return (None, False, ("reparse-outside-domain",))
    add = AddEnclosingMiddleware(reuse_previous_enclosing=False, enclose_integers=True, default_enclosing=d, allow_inplace_modification=False)
    for kind in ("field", "string"):
        t = _get(add.transform(_lib(v, kind, "title")), kind)
        if not isinstance(t, str):
            return (("reparse:type", repr(t), "str"), True, cls)
        if kind == "field":
            lib = Splitter("@a{k, title = " + t + "}").split()
            b = lib.blocks[0] if len(lib.blocks) == 1 else None
            ok = isinstance(b, Entry) and len(b.fields) == 1 and b.fields[0].key == "title" and b.fields[0].value == t
        else:
            lib = Splitter("@string{s = " + t + "}").split()
            b = lib.blocks[0] if len(lib.blocks) == 1 else None
            ok = isinstance(b, String) and b.key == "s" and b.value == t
        if not ok:
            return ((f"reparse:{kind}", f"content {v!r} enclosed as {t!r} re-parses to {[type(x).__name__ for x in lib.blocks]!r}", "one block with one value equal to the enclosed text"), True, cls)
        if strip1(t)[0] != v:
            return (("reparse:content", f"{t!r} strips to {strip1(t)[0]!r}", repr(v)), True, cls)
    return (None, True, cls + value_classes(v)[1:])


def o_intrule(inp):
    """inp: {"value": int | str, "key": field key, "default", "reuse", "enclose_integers", "inplace"}: sub-check 4."""
    v, key = inp["value"], inp["key"]
    add = AddEnclosingMiddleware(reuse_previous_enclosing=inp["reuse"], enclose_integers=inp["enclose_integers"], default_enclosing=inp["default"],
                                 allow_inplace_modification=inp["inplace"])
    out = libgen.maybe_preuse(add, (repr(v), key)).transform(_lib(v, "field", key))
    got = _get(out, "field", key)
    d = inp["default"]
    is_int = isinstance(v, int) or (isinstance(v, str) and v.isascii() and v.isdigit())
    unspecified = isinstance(v, str) and (not v.isascii()) and v.isdigit()
    cls = ["intrule", "int-value" if isinstance(v, int) else "str-value", "numeric-key" if key in NUMERIC_FIELDS else "other-key"]
    if unspecified:
        return (None, False, cls + ["non-ascii-digits"])
    sv = str(v)
    enclosed = "{" + sv + "}" if d == "{" else '"' + sv + '"'
    if key in NUMERIC_FIELDS and is_int and not inp["enclose_integers"]:
        ok = got == v or got == sv
        want = f"unenclosed {v!r}"
    else:
        ok = got == enclosed
        want = repr(enclosed)
    if not ok:
        return ((f"intrule:{'numeric' if key in NUMERIC_FIELDS else 'other'}-key", f"{key} = {v!r} -> {got!r} (default {d!r}, reuse={inp['reuse']}, enclose_integers={inp['enclose_integers']})", want), True, cls)
    # strings are always enclosed
    s_out = add.transform(_lib(sv, "string"))
    if _get(s_out, "string") != enclosed:
        return (("intrule:string-block", repr(_get(s_out, "string")), repr(enclosed)), True, cls)
    return (None, is_int, cls)


def _enclose_ref(c, kind):
    return "{" + c + "}" if kind == "{" else ('"' + c + '"' if kind == '"' else c)


def o_entry(inp):
    """A whole entry, also one that repeats a field key (what a DuplicateFieldKeyBlock hands out as its inner entry):
    inp {"fields": [[key, value], ...], "inplace": bool, "via": "model"|"parse"}.  Every field - by position - is stripped
    by one layer, restored exactly under reuse, and given the default enclosing (or the integer rule) without reuse."""
    fields = [[k, v.strip() if isinstance(v, str) else v] for k, v in inp["fields"]]
    cls = ["entry"]
    keys = [k for k, _ in fields]
    repeated = len(set(keys)) < len(keys)
    if repeated:
        cls.append("repeated-field-key")
    if inp.get("via") == "parse":
        text = "@a{k, " + ", ".join(f"{k} = {v}" for k, v in fields) + "}"
        lib0 = Splitter(text).split()
        b = lib0.blocks[0] if len(lib0.blocks) == 1 else None
        e = b.ignore_error_block if isinstance(b, ParsingFailedBlock) else b
        if not isinstance(e, Entry) or [[f.key, f.value] for f in e.fields] != fields:
            return (None, False, ("entry-not-parsed-as-written",))  # C02's / C09's subject
        cls.append("inner-entry-of-failed-block" if isinstance(b, ParsingFailedBlock) else "parsed-entry")
        lib = Library([e])
    else:
        lib = Library([Entry("article", "k", [Field(k, v, i + 1) for i, (k, v) in enumerate(fields)], 0, "raw")])
    import zlib

    macro = next((c for c in (strip1(v)[0] for _, v in fields if isinstance(v, str)) if c and c.strip() == c), None)
    if macro is not None and zlib.crc32(repr(fields).encode()) % 3 == 0:
        # the library defines a @string whose key is exactly the content of one of the fields: enclosing is decided by the
        # value and the options, not by what else the library holds
        lib.add(String(macro, '"macro text"', 90, "@string{...}"))
        cls.append("content-equals-a-macro-name")
    rem = libgen.maybe_preuse(RemoveEnclosingMiddleware(allow_inplace_modification=inp["inplace"]), repr(fields), same=lib).transform(lib)
    ent = rem.blocks[0]
    if not isinstance(ent, Entry) or len(ent.fields) != len(fields):
        return (("entry:strip-changed-fields", repr(ent), f"{len(fields)} fields"), True, cls)
    stripped = [strip1(v) for _, v in fields]
    for f, (k, v), (c, kind) in zip(ent.fields, fields, stripped):
        if f.key != k or f.value != c:
            return (("entry:strip", f"{fields!r}: {f.key} = {f.value!r}", f"{k} = {c!r}"), True, cls)
    meta = ent.parser_metadata.get("removed_enclosing") or {}
    if not repeated:
        for (k, _), (_, kind) in zip(fields, stripped):
            if meta.get(k, meta.get(k.lower())) != kind:
                return (("entry:recorded-kind", f"{fields!r}: {meta!r}", f"{k}: {kind!r}"), True, cls)
    last_kind = {}
    for (k, _), (_, kind) in zip(fields, stripped):
        last_kind[k] = kind
    known_shaped = None
    for d, r, e in OPTION_SETS:
        add = AddEnclosingMiddleware(reuse_previous_enclosing=r, enclose_integers=e, default_enclosing=d, allow_inplace_modification=False)
        back = libgen.maybe_preuse(add, (repr(fields), d, r, e), same=rem).transform(rem).blocks[0]
        if not isinstance(back, Entry) or len(back.fields) != len(fields):
            return (("entry:add-changed-fields", repr(back), f"{len(fields)} fields"), True, cls)
        for f, (k, v), (c, kind) in zip(back.fields, fields, stripped):
            if r:
                want = v
            else:
                if not c.isascii() and c.isdigit():
                    continue  # non-ASCII digits: not settled by the statement
                want = c if (k in NUMERIC_FIELDS and c.isascii() and c.isdigit() and not e) else _enclose_ref(c, d)
            if f.key == k and f.value == want:
                continue
            desc = (f"{fields!r} default {d!r} reuse={r} enclose_integers={e}: field {k!r} (was {v!r}) -> {f.key} = {f.value!r}", repr(want))
            if r and f.key == k and keys.count(k) > 1 and last_kind[k] != kind and f.value == _enclose_ref(c, last_kind[k]):
                # F-22 shape: the enclosing is recorded per field *key*; another occurrence of the key, enclosed differently, overwrote it
                known_shaped = known_shaped or (("entry:reuse:repeated-key-enclosed-differently",) + desc, True, cls)
                continue
            return ((("entry:reuse-not-restored" if r else "entry:default-enclosing"),) + desc, True, cls)
    if known_shaped:
        return known_shaped
    return (None, True, cls)


def kf_repeated_key_enclosed_differently(sub, inp, fail):
    """F-22: the only deviation in the entry is that occurrences of one field key that were enclosed differently come
    back with the enclosing of the last occurrence (the signature is only given to exactly that shape)."""
    return sub == "entry" and fail[0] == "entry:reuse:repeated-key-enclosed-differently"


SUBS = {"strip_reuse": o_strip_reuse, "reparse": o_reparse, "intrule": o_intrule, "entry": o_entry}

FRAMES = {"F1": ("@a{k, f = ", ", g = {z}}\n"), "F2": ("@string{s = ", "}\n@a{k}")}


def splitter_values(frame, L, prefix):
    """Distinct (value, kind) pairs the splitter produces for the frame enumeration."""
    pre, post = FRAMES[frame]
    seen = set()
    for t in tokens.seqs(tokens.SIGMA_F, L, prefix):
        try:
            lib = Splitter(pre + "".join(t) + post).split()
        except Exception:
            continue  # a crashing splitter is C01's subject; here the splitter only supplies values
        for b in lib.blocks:
            if isinstance(b, Entry):
                for f in b.fields:
                    if f.key == "f":
                        seen.add((f.value, "field"))
            elif isinstance(b, String):
                seen.add((b.value, "string"))
    return sorted(seen)


def w_frame_values(acc, frame, L, prefix):
    for v, kind in splitter_values(frame, L, prefix):
        acc.run("strip_reuse", o_strip_reuse, {"value": v, "kind": kind, "inplace": True}, False)
        if kind == "field":
            for key in ("Title", "year", "Month"):
                acc.run("strip_reuse", o_strip_reuse, {"value": v, "kind": kind, "inplace": False, "key": key}, False)
        c = strip1(v)[0]
        for d in ("{", '"'):
            acc.run("reparse", o_reparse, {"content": c, "default": d}, False)
            acc.run("reparse", o_reparse, {"content": v, "default": d}, False)


def w_intrule(acc):
    vals = [0, 7, 1999, 10**12, "0", "7", "1999", "007", "12a", "", "1-2", " 5", "٣", "²", "x", "{5}", "-3", "½", "Ⅻ", "1_000", "+3", "1 2", "5\n", -44]
    for v, key, (d, r, e), inplace in itertools.product(vals, NUMERIC_FIELDS + OTHER_KEYS, OPTION_SETS, (True, False)):
        acc.run("intrule", o_intrule, {"value": v, "key": key, "default": d, "reuse": r, "enclose_integers": e, "inplace": inplace}, True)
    for v in ["", '"', "{", "}", "a", "{}", '""', '"{"}"', "{a} # {b}", '"a" # "b"', "{a", "a}", '{"}', '"}"', " {a} ", "{ a }"]:
        for kind in ("field", "string"):
            for inplace in (True, False):
                acc.run("strip_reuse", o_strip_reuse, {"value": v.strip(), "kind": kind, "inplace": inplace}, True)


ENTRY_KEYS = ["note", "Note", "year"]
ENTRY_VALUES = ["{First}", '"Second {n}"', "{}", "7", "{1999}", "abc", '{a} # "b"', '"{"}"']


def w_entries(acc, first):
    pool = [[k, v] for k in ENTRY_KEYS for v in ENTRY_VALUES]
    for nf in (1, 2, 3):
        for rest in itertools.product(pool, repeat=nf - 1):
            fields = [pool[first]] + [list(x) for x in rest]
            for inplace in (True, False):
                acc.run("entry", o_entry, {"fields": fields, "inplace": inplace, "via": "parse" if (first + nf + inplace) % 2 else "model"}, True)


def w_random(acc, n, seed):
    from hypothesis import strategies as st

    ef = st.lists(st.tuples(st.sampled_from(ENTRY_KEYS + ["title", "month", "NOTE"]), st.one_of(st.sampled_from(ENTRY_VALUES), st.lists(st.integers(0, 255), min_size=4, max_size=40).map(lambda ints: bibgen.gen_value(bibgen.Src(ints), 3)))).map(list), min_size=1, max_size=7)
    harness.run_hyp(acc, "entry", o_entry, st.fixed_dictionaries({"fields": ef, "inplace": st.booleans(), "via": st.sampled_from(["model", "parse"])}), max(200, n // 2), seed)

    vals = st.lists(st.integers(0, 255), min_size=4, max_size=80).map(lambda ints: bibgen.gen_value(bibgen.Src(ints), 4))
    sr = st.fixed_dictionaries({"value": vals, "kind": st.sampled_from(["field", "string"]), "inplace": st.booleans(),
                                "key": st.sampled_from(["title", "Title", "year", "Month", "x-Y", "NOTE"])})
    harness.run_hyp(acc, "strip_reuse", o_strip_reuse, sr, n, seed)
    content = st.one_of(vals.map(lambda v: strip1(v)[0]), vals, st.text(alphabet="ab {}\"\\,=#\n@é", max_size=10).map(bibgen.fix_openers))
    rp = st.fixed_dictionaries({"content": content, "default": st.sampled_from(["{", '"'])})
    harness.run_hyp(acc, "reparse", o_reparse, rp, n, seed)
    ir = st.fixed_dictionaries({"value": st.one_of(st.integers(-5, 3000), st.text(alphabet="0123456789", min_size=1, max_size=5), st.text(max_size=4)),
                                "key": st.sampled_from(NUMERIC_FIELDS + OTHER_KEYS), "default": st.sampled_from(["{", '"']), "reuse": st.booleans(),
                                "enclose_integers": st.booleans(), "inplace": st.booleans()})
    harness.run_hyp(acc, "intrule", o_intrule, ir, max(200, n // 2), seed)


def run(chk):
    quick = chk.tier == "quick"
    L = 5 if quick else 6
    tasks = [("w_intrule", ())] + [("w_entries", (i,)) for i in range(len(ENTRY_KEYS) * len(ENTRY_VALUES))]
    for fr in FRAMES:
        tasks += [("w_frame_values", (fr,) + t) for t in tokens.seq_tasks(tokens.SIGMA_F, L, prefix_len=2)]
    n_rand = 16000 if quick else 300000
    shards = 16 if quick else 64
    for s in range(shards):
        tasks.append(("w_random", (n_rand // shards, harness.seed_for(chk.seed, PROP, s))))
    harness.pmap(chk.acc, MODNAME, tasks)
    chk.acc.exhaustive["splitter-values"] = f"every value the splitter produces for <= {L} tokens of {tokens.SIGMA_F!r} inside the frames {FRAMES!r}"
    chk.acc.exhaustive["integer-rule"] = "17 values x 11 field keys x 8 option sets x in-place/copy"
    chk.rule = (
        "cases = (value, block kind, options). Values: every value the splitter yields for the frame enumeration (field "
        "values and @string values, incl. a lone quote), random grammar values, ints and digit strings. Oracles: (1) removal "
        "= lexical one-layer strip (first/last character, length >= 2) with the kind recorded per field / for the string; "
        "(2) AddEnclosing(reuse) after removal restores the value exactly for all option sets; (3) for brace-balanced "
        "contents not ending in a backslash (no bare quote outside braces for the quote default) the default enclosing "
        "re-parses as one field / string with that exact text and the same content; (4) integer rule over numeric and "
        "other keys x all options, no exception; (5) whole entries, also with a repeated field key (built, or the inner entry of a "
        "duplicate-field block): every field by position stripped, restored under reuse, default-enclosed / integer rule without. Non-trivial: the value is enclosed, nested, a concatenation, empty, a "
        "single character, in the re-parse domain, or an integer."
    )
    chk.required_classes = ["repeated-field-key", "inner-entry-of-failed-block", "key-with-upper-case", "enclosed:{", 'enclosed:"', "enclosed:no-enclosing", "nested", "concatenation", "single-char", "string", "field", "reparse:{", 'reparse:"', "intrule", "int-value"]
