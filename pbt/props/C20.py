"""C20 - entry points apply exactly the requested middleware stack, in order."""
import copy
import io
import itertools
import os
import shutil
import tempfile

import bibtexparser
from bibtexparser import writer as bwriter
from bibtexparser.library import Library
from bibtexparser.middlewares import (
    AddEnclosingMiddleware,
    BlockMiddleware,
    LibraryMiddleware,
    RemoveEnclosingMiddleware,
    ResolveStringReferencesMiddleware,
)
from bibtexparser.model import (
    Block,
    Entry,
    ExplicitComment,
    Field,
    ImplicitComment,
    ParsingFailedBlock,
    Preamble,
    String,
)
from bibtexparser.splitter import Splitter

from .. import bibgen, harness, libgen
from ..compare import canon

PROP = "C20"
MODNAME = __name__

KINDS = ["entry", "string", "preamble", "ecomment", "icomment"]
RETURNS = ["same", "none", "empty-list", "empty-tuple", "list1", "list2", "tuple3", "deque2", "dict-values1", "empty-deque", "generator", "object", "int0", "false", "list-with-nonblock", "str", "dict", "rename-same", "tag", "subclass", "mapping-subclass", "library"]


def kind_of(b):
    if isinstance(b, ParsingFailedBlock):
        return "failed"
    for k, c in (("entry", Entry), ("string", String), ("preamble", Preamble), ("ecomment", ExplicitComment), ("icomment", ImplicitComment)):
        if isinstance(b, c):
            return k
    return "other"


def _clone(b, n):
    c = copy.deepcopy(b)
    if hasattr(c, "key"):
        c.key = f"{c.key}_{n}"
    return c


def make_result(ret, b):
    """What a block probe returns for block b; second value: the expected splice or the string 'TypeError'."""
    if ret == "same":
        return b, [b]
    if ret == "tag":
        # visible effect of the per-kind handler having been called
        if isinstance(b, Entry):
            b.set_field(Field("probe", "seen"))
        elif isinstance(b, String):
            b.value = str(b.value) + "+seen"
        return b, [b]
    if ret == "subclass":
        # an instance of a user-defined subclass of the model class replaces the block: later stages must treat it as that kind
        c = copy.deepcopy(b)
        if type(b) is Entry:
            c.__class__ = _SubEntry
        elif type(b) is String:
            c.__class__ = _SubString
        return c, [c]
    if ret == "mapping-subclass":
        # a subclass completing the mapping-style interface of the model class (sized, iterable): still one block -
        # also when it is "empty" (an entry without fields is falsy then)
        c = copy.deepcopy(b)
        if type(b) is Entry:
            c.__class__ = _MappingEntry
        elif type(b) is String:
            c.__class__ = _SizedString
        return c, [c]
    if ret == "library":
        return Library([copy.deepcopy(b)]), "TypeError"
    if ret == "rename-same":
        # the very same instance comes back with another key: the library rebuilt from the results must
        # treat it under its new key (collisions become duplicate blocks)
        if hasattr(b, "key"):
            b.key = "renamed"
        return b, [b]
    if ret == "none":
        return None, []
    if ret == "empty-list":
        return [], []
    if ret == "empty-tuple":
        return (), []
    if ret == "list1":
        return [b], [b]
    if ret == "list2":
        c = copy.deepcopy(b)
        return [b, c], [b, c]
    if ret == "tuple3":
        c1, c2 = _clone(b, 1), _clone(b, 2)
        return (c1, b, c2), [c1, b, c2]
    # the documented result type is Collection[Block]: sized iterable containers other than list / tuple count too
    if ret == "deque2":
        import collections

        c = copy.deepcopy(b)
        return collections.deque([b, c]), [b, c]
    if ret == "empty-deque":
        import collections

        return collections.deque(), []
    if ret == "dict-values1":
        return {"only": b}.values(), [b]
    if ret == "generator":
        return (x for x in [b]), "TypeError"
    if ret == "object":
        return object(), "TypeError"
    if ret == "int0":
        return 0, "TypeError"
    if ret == "false":
        return False, "TypeError"
    if ret == "list-with-nonblock":
        return [b, "not a block"], "TypeError"
    if ret == "str":
        return "xy", "TypeError"
    if ret == "dict":
        return {"a": b}, "TypeError"
    raise harness.HarnessError(ret)


class _SubEntry(Entry):
    pass


class _SubString(String):
    pass


class _MappingEntry(Entry):
    def __len__(self):
        return len(self.fields)

    def __iter__(self):
        return iter(f.key for f in self.fields)


class _SizedString(String):
    def __len__(self):
        return 0

    def __iter__(self):
        return iter(())


class LibProbe(LibraryMiddleware):
    """Order-sensitive library probe: tags every entry and records how many blocks it saw."""

    def __init__(self, tag):
        super().__init__(allow_inplace_modification=True)
        self.tag = tag

    def transform(self, library):
        return lib_probe_apply(self.tag, library)


def lib_probe_apply(tag, library):
    n = len(library.blocks)
    for e in library.entries:
        cur = e.get("trace")
        e.set_field(Field("trace", (cur.value if cur is not None else "") + tag))
    library.add(ImplicitComment(f"probe {tag} saw {n} blocks"))
    return library


class BlockProbe(BlockMiddleware):
    """Block probe: returns, per block kind, the configured kind of result and logs the dispatch."""

    def __init__(self, rets):
        super().__init__(allow_inplace_modification=True, allow_parallel_execution=False)
        self.rets = rets
        self.log = []

    def _r(self, kind, b, method):
        self.log.append((method, kind_of(b)))
        return make_result(self.rets.get(kind, "same"), b)[0]

    def transform_entry(self, entry, library):
        return self._r("entry", entry, "transform_entry")

    def transform_string(self, string, library):
        return self._r("string", string, "transform_string")

    def transform_preamble(self, preamble, library):
        return self._r("preamble", preamble, "transform_preamble")

    def transform_explicit_comment(self, explicit_comment, library):
        return self._r("ecomment", explicit_comment, "transform_explicit_comment")

    def transform_implicit_comment(self, implicit_comment, library):
        return self._r("icomment", implicit_comment, "transform_implicit_comment")


class RawBlockProbe(BlockMiddleware):
    """Block probe overriding the documented per-block hook `transform_block` itself: it is asked about every
    block of the library, failed blocks included."""

    def __init__(self, rets):
        super().__init__(allow_inplace_modification=True, allow_parallel_execution=False)
        self.rets = rets

    def transform_block(self, block, library):
        return make_result(self.rets.get(kind_of(block), "same"), block)[0]


FAILED_RETURNS = ["same", "none", "empty-list", "empty-tuple", "list1", "list2", "deque2", "generator", "object", "int0", "false", "list-with-nonblock", "str", "dict", "library"]


def raw_block_probe_reference(rets, library):
    out = []
    for b in library.blocks:
        _res, exp = make_result(rets.get(kind_of(b), "same"), b)
        if exp == "TypeError":
            raise TypeError("non-block result")
        out.extend(exp)
    return Library(out)


def block_probe_reference(rets, library):
    """The documented protocol, written independently: splice per-block results in order, failed blocks pass through."""
    out = []
    for b in library.blocks:
        k = kind_of(b)
        if k in ("failed", "other"):
            out.append(b)
            continue
        _res, exp = make_result(rets.get(k, "same"), b)
        if exp == "TypeError":
            raise TypeError("non-block result")
        out.extend(exp)
    return Library(out)


def instantiate(spec):
    """-> (real middleware object, reference function library -> library)"""
    if "probe" in spec:
        if spec["probe"] == "lib":
            return LibProbe(spec["tag"]), (lambda lib, t=spec["tag"]: lib_probe_apply(t, lib))
        if spec["probe"] == "rawblock":
            return RawBlockProbe(spec["rets"]), (lambda lib, r=spec["rets"]: raw_block_probe_reference(r, lib))
        return BlockProbe(spec["rets"]), (lambda lib, r=spec["rets"]: block_probe_reference(r, lib))
    mw = libgen.make_middleware(spec, inplace=spec.get("inplace", True))
    ref = libgen.make_middleware(spec, inplace=spec.get("inplace", True))
    return mw, ref.transform


def outcome(fn):
    try:
        return ("ok", fn())
    except Exception as e:
        if harness.exc_signature(e) is None and not isinstance(e, (TypeError, ValueError, AttributeError)):
            raise
        return ("exc", type(e).__name__)


DOC_INTS = [[(i * 37 + j * 11) % 251 for j in range(60 + i)] for i in range(14)]
HAND_DOCS = [
    "@article{é1, title = {Tïtle é}, author = \"Ü. Ñame\"}\n% cömment\n@string{s = \"ß\"}\n@misc{m, t = s}",
    "@book{凯1, title = {汉字 title}, year = 2000}\n@comment{凯}\n自由文本\n",
    "@a{k1, x = {1}}\n@a{k1, x = {2}}\n@b{k2, y = 1, y = 2}\n@broken{\n@string{s = {v}}\n@preamble{p}\nfree\n@comment{c}",
    "",
]


def get_doc(i):
    i = i % (len(DOC_INTS) + len(HAND_DOCS))
    if i < len(DOC_INTS):
        text, _ = bibgen.render(bibgen.gen_document(DOC_INTS[i], key_pool=["a", "b", "c", "d"]))
        return text.replace("\r", "")
    return HAND_DOCS[i - len(DOC_INTS)]


def encodable(text, enc):
    try:
        text.encode(enc)
        return True
    except UnicodeError:
        return False


def _fold_ref(specs, lib):
    for s in specs:
        _mw, ref = instantiate(s)
        lib = ref(lib)
    return lib


def _real_stack(specs):
    return [instantiate(s)[0] for s in specs]


CONTAINERS = ["list", "tuple", "iterator", "generator", "deque"]


class _Args:
    """The stack arguments of one call: built as lists, handed over in the requested container kind (the parameters
    are annotated Iterable[Middleware]: tuples, one-shot iterators, generators, deques are stacks too), and compared
    afterwards: a list the caller handed over must still hold the same middleware objects in the same order."""

    def __init__(self, container):
        self.container = container or "list"
        self.lists = {}
        self.passed = {}

    def add(self, name, specs):
        real = _real_stack(specs)
        self.lists[name] = (real, list(real))
        c = self.container
        if c == "tuple":
            obj = tuple(real)
        elif c == "iterator":
            obj = iter(real)
        elif c == "generator":
            obj = (m for m in real)
        elif c == "deque":
            import collections

            obj = collections.deque(real)
        else:
            obj = real
        self.passed[name] = obj
        return obj

    def all(self):
        return [m for real, _ in self.lists.values() for m in real]

    def caller_list_changed(self):
        for name, (real, before) in self.lists.items():
            if len(real) != len(before) or any(a is not b for a, b in zip(real, before)):
                return (("caller-stack-list-changed", f"{name}: {[type(m).__name__ for m in real]!r}", f"{[type(m).__name__ for m in before]!r} (the caller's list is the caller's)"))
        return None


def o_parse(inp):
    """inp: {"doc": i, "parse_stack": [specs]|None, "append_middleware": [specs]|None, "via": "string"|"file", "encoding": enc}"""
    text = get_doc(inp["doc"])
    ps, am = inp.get("parse_stack"), inp.get("append_middleware")
    enc = inp.get("encoding", "utf-8")
    cls = ["parse:" + inp["via"]]
    if inp["via"] == "file" and not encodable(text, enc):
        return (None, False, ("not-encodable",))
    nsens = sum(1 for s in (ps or []) + (am or []) if "probe" in s)
    nontrivial = nsens >= 2 or (inp["via"] == "file" and enc != "utf-8" and not text.isascii()) or any(s.get("probe") in ("block", "rawblock") and any(r != "same" for r in s["rets"].values()) for s in (ps or []) + (am or []))
    if nsens >= 2:
        cls.append(">=2-order-sensitive")
    if inp["via"] == "file":
        cls.append("enc:" + enc)
        if not text.isascii():
            cls.append("non-ascii-file")
    into = inp.get("into") if inp["via"] == "string" else None
    if into is not None:
        # `library=`: the text is split into the given (non-empty) library, then the stack runs over that library
        cls.append("into-existing-library")
        nontrivial = True
    # the documented composition
    if ps is not None and am is not None:
        exp = ("exc", "ValueError")
        cls.append("both-given")
    else:
        def ref():
            lib = Splitter(text).split() if into is None else Splitter(text).split(library=Splitter(get_doc(into)).split())
            if ps is not None:
                specs = ps
                pre = []
            else:
                pre = [ResolveStringReferencesMiddleware(), RemoveEnclosingMiddleware()]
                specs = am or []
            for m in pre:
                lib = m.transform(lib)
            return canon(_fold_ref(specs, lib))
        exp = outcome(ref)
    kw = {}
    args = _Args(inp.get("container"))
    if args.container != "list":
        cls.append("stack-as-" + args.container)
    if ps is not None:
        kw["parse_stack"] = args.add("parse_stack", ps)
    if am is not None:
        kw["append_middleware"] = args.add("append_middleware", am)
    if into is not None:
        kw["library"] = Splitter(get_doc(into)).split()
    if inp["via"] == "string":
        got = outcome(lambda: canon(bibtexparser.parse_string(text, **kw)))
    else:
        d = tempfile.mkdtemp(prefix="c20_")
        try:
            path = os.path.join(d, "in.bib")
            with open(path, "w", encoding=enc, newline="") as f:
                f.write(text)
            got = outcome(lambda: canon(bibtexparser.parse_file(path, encoding=enc, **kw)))
        finally:
            shutil.rmtree(d, ignore_errors=True)
    if got != exp:
        return ((f"parse:{inp['via']}:{'stack' if ps is not None else 'append'}", _short_outcome(got), _short_outcome(exp)), nontrivial, cls)
    f = args.caller_list_changed()
    if f:
        return (f, nontrivial, cls)
    # dispatch of block probes
    for mw in args.all():
        if isinstance(mw, BlockProbe):
            cls.append("block-probe")
            for method, kind in mw.log:
                want = {"entry": "transform_entry", "string": "transform_string", "preamble": "transform_preamble", "ecomment": "transform_explicit_comment", "icomment": "transform_implicit_comment"}.get(kind)
                if want != method:
                    return (("dispatch", f"{kind} block handed to {method}", str(want)), True, cls)
    return (None, nontrivial, cls)


def _short_outcome(o):
    if o[0] == "exc":
        return "raises " + o[1]
    return harness._short(o[1], 300)


def o_write(inp):
    """inp: {"doc": i, "unparse_stack": [specs]|None, "prepend_middleware": [specs]|None, "fmt": spec|None,
             "via": "string"|"path"|"file"|"stringio", "encoding": enc}"""
    text = get_doc(inp["doc"])
    us, pm = inp.get("unparse_stack"), inp.get("prepend_middleware")
    enc = inp.get("encoding", "utf-8")
    via = inp["via"]
    cls = ["write:" + via]
    nsens = sum(1 for s in (us or []) + (pm or []) if "probe" in s)
    if nsens >= 2:
        cls.append(">=2-order-sensitive")
    lib_real = bibtexparser.parse_string(text)
    lib_ref = bibtexparser.parse_string(text)
    fmt = libgen.build_format(inp.get("fmt")) if inp.get("fmt") is not None else None
    fmt_ref = libgen.build_format(inp.get("fmt")) if inp.get("fmt") is not None else None
    if us is not None and pm is not None:
        exp = ("exc", "ValueError")
        cls.append("both-given")
    else:
        def ref():
            lib = lib_ref
            if us is not None:
                lib = _fold_ref(us, lib)
            else:
                lib = _fold_ref(pm or [], lib)
                lib = AddEnclosingMiddleware(reuse_previous_enclosing=False, enclose_integers=True, default_enclosing="{", allow_inplace_modification=False).transform(lib)
            return bwriter.write(lib, fmt_ref)
        exp = outcome(ref)
    if via != "string" and exp[0] == "ok" and not encodable(exp[1], enc):
        return (None, False, ("not-encodable",))
    kw = {}
    args = _Args(inp.get("container"))
    if args.container != "list":
        cls.append("stack-as-" + args.container)
    if via == "string":
        if us is not None:
            kw["unparse_stack"] = args.add("unparse_stack", us)
        if pm is not None:
            kw["prepend_middleware"] = args.add("prepend_middleware", pm)
        got = outcome(lambda: bibtexparser.write_string(lib_real, bibtex_format=fmt, **kw))
    else:
        # write_file names the same two arguments parse_stack / append_middleware
        if us is not None:
            kw["parse_stack"] = args.add("parse_stack", us)
        if pm is not None:
            kw["append_middleware"] = args.add("append_middleware", pm)
        d = tempfile.mkdtemp(prefix="c20_")
        try:
            path = os.path.join(d, "out.bib")

            def run():
                if via == "path":
                    bibtexparser.write_file(path, lib_real, bibtex_format=fmt, **kw)
                    with open(path, encoding="utf-8", newline="") as f:
                        return f.read()
                if via == "file":
                    with open(path, "w", encoding=enc, newline="") as f:
                        bibtexparser.write_file(f, lib_real, bibtex_format=fmt, **kw)
                    with open(path, encoding=enc, newline="") as f:
                        return f.read()
                buf = io.StringIO()
                bibtexparser.write_file(buf, lib_real, bibtex_format=fmt, **kw)
                return buf.getvalue()

            got = outcome(run)
        finally:
            shutil.rmtree(d, ignore_errors=True)
        cls.append("enc:" + enc)
    nontrivial = nsens >= 2 or via != "string"
    if got != exp:
        return ((f"write:{via}:{'stack' if us is not None else 'prepend'}", _short_outcome(got), _short_outcome(exp)), nontrivial, cls)
    f = args.caller_list_changed()
    if f:
        return (f, nontrivial, cls)
    return (None, nontrivial, cls)


def o_default_stack_isolation(inp):
    """The lists returned by default_parse_stack() / default_unparse_stack() belong to the caller: editing them must
    not change what a later plain parse_string / write_string does.  inp: {"doc": i, "edit": "append"|"pop"|"clear"}"""
    from bibtexparser.middlewares import default_parse_stack, default_unparse_stack

    text = get_doc(inp["doc"])
    before_lib = canon(bibtexparser.parse_string(text))
    before_txt = outcome(lambda: bibtexparser.write_string(bibtexparser.parse_string(text)))
    for getter in (default_parse_stack, default_unparse_stack):
        for kwargs in ({}, {"allow_inplace_modification": True}, {"allow_inplace_modification": False}):
            st_ = getter(**kwargs)
            if inp["edit"] == "append":
                st_.append(LibProbe("Z"))
            elif inp["edit"] == "pop" and st_:
                st_.pop(0)
            else:
                st_.clear()
    after_lib = canon(bibtexparser.parse_string(text))
    after_txt = outcome(lambda: bibtexparser.write_string(bibtexparser.parse_string(text)))
    if after_lib != before_lib:
        return (("default-parse-stack-shared", harness._short(after_lib, 300), harness._short(before_lib, 300)), True, ("default-stack-isolation",))
    if after_txt != before_txt:
        return (("default-unparse-stack-shared", _short_outcome(after_txt), _short_outcome(before_txt)), True, ("default-stack-isolation",))
    return (None, True, ("default-stack-isolation",))


ROUTE_DOCS = [
    "@article{k1,\n  author = {Ada Lovelace and de la Vall{\\'e}e Poussin, Charles and {Simon and Schuster}},\n  Title = {A {B}é $x$ & c},\n  month = 3,\n  year = 1999,\n  editor = \"Knuth, Donald E.\"\n}\n"
    "@string{s = \"str {x} é\"}\n@misc{k2, month = jan, title = s, note = \"50\\% of http://a.b/c\", MONTH = {12}}\n% free text é\n@preamble{\"pre\"}\n@comment{c}\n"
    "@misc{k2, author = {Second and , Broken,,}}\n@misc{k3, x = 1, x = 2, author = {B, A}}\n@broken{\n",
]
ROUTE_PREFIXES = [[], [{"mw": "SeparateCoAuthors", "name_fields": None}], [{"mw": "SeparateCoAuthors", "name_fields": None}, {"mw": "SplitNameParts", "name_fields": None}],
                  [{"mw": "RemoveEnclosing"}], [{"mw": "LatexEncoding"}]]


def _splice(results):
    out = []
    for r in results:
        if r is None:
            continue
        if isinstance(r, Block):
            out.append(r)
        else:
            out.extend(r)
    return out


def o_routes(inp):
    """A shipped block middleware reached three ways must do the same: `.transform(library)` (what a stack calls), the
    documented per-block hook `.transform_block(block, library)` spliced by hand, and the per-kind handlers
    (`transform_entry` / `transform_string` / ...) of an in-place instance.
    inp: {"doc": i, "raw": bool, "prefix": i, "mw": index into libgen.all_middleware_specs(), "inplace": bool}"""
    specs = libgen.all_middleware_specs()
    spec = specs[inp["mw"] % len(specs)]
    text = ROUTE_DOCS[0] if inp["doc"] < 0 else get_doc(inp["doc"])
    base = Splitter(text).split() if inp["raw"] else bibtexparser.parse_string(text)
    for ps in ROUTE_PREFIXES[inp["prefix"] % len(ROUTE_PREFIXES)]:
        if not libgen.stage_compatible(ps, base):
            return (None, False, ("outside-domain",))
        base = libgen.make_middleware(ps, inplace=True).transform(base)
    mw = libgen.make_middleware(spec, inplace=inp["inplace"])
    if not isinstance(mw, BlockMiddleware) or not libgen.stage_compatible(spec, base):
        return (None, False, ("outside-domain",))
    cls = ["routes", "routes:" + spec["mw"]]
    a = canon(mw.transform(copy.deepcopy(base)).blocks)
    l2 = copy.deepcopy(base)
    mw2 = libgen.make_middleware(spec, inplace=inp["inplace"])
    b = canon(Library(_splice([mw2.transform_block(x, l2) for x in list(l2.blocks)])).blocks)
    if a != b:
        return ((f"routes:transform-vs-transform_block:{spec['mw']}", repr(b), repr(a)), True, cls)
    l3 = copy.deepcopy(base)
    mw3 = libgen.make_middleware(spec, inplace=True)
    res = []
    for x in list(l3.blocks):
        k = kind_of(x)
        if k == "entry":
            res.append(mw3.transform_entry(x, l3))
        elif k == "string":
            res.append(mw3.transform_string(x, l3))
        elif k == "preamble":
            res.append(mw3.transform_preamble(x, l3))
        elif k == "ecomment":
            res.append(mw3.transform_explicit_comment(x, l3))
        elif k == "icomment":
            res.append(mw3.transform_implicit_comment(x, l3))
        else:
            res.append(x)
    c = canon(Library(_splice(res)).blocks)
    # compared with the in-place run of `.transform` (a duplicate block's `previous_block` is the live block itself, so
    # in-place and copy mode legitimately differ in what that reference shows)
    a_in = a if inp["inplace"] else canon(libgen.make_middleware(spec, inplace=True).transform(copy.deepcopy(base)).blocks)
    if a_in != c:
        return ((f"routes:transform-vs-per-kind-handlers:{spec['mw']}", repr(c), repr(a_in)), True, cls)
    changed = a != canon(base.blocks)
    if changed:
        cls.append("routes:middleware-had-an-effect")
    return (None, changed, cls)


SUBS = {"parse": o_parse, "write": o_write, "isolation": o_default_stack_isolation, "routes": o_routes}

N_DOCS = len(DOC_INTS) + len(HAND_DOCS)
LIB_PROBES = [{"probe": "lib", "tag": t} for t in "ABC"]
SHIPPED = [{"mw": "SortFieldsAlphabetically"}, {"mw": "NormalizeFieldKeys"}, {"mw": "MonthInt"}, {"mw": "RemoveEnclosing"},
           {"mw": "AddEnclosing", "reuse": False, "enclose_integers": True, "default": '"'}, {"mw": "SortBlocks", "order": None, "preserve": True}]


def stacks(max_len):
    pool = LIB_PROBES[:2] + SHIPPED[:3]
    out = [[]]
    for n in range(1, max_len + 1):
        for combo in itertools.permutations(pool, n):
            out.append(list(combo))
    return out


def w_parse_grid(acc, doc_lo, doc_hi):
    sts = stacks(2) + [[LIB_PROBES[0], LIB_PROBES[1], LIB_PROBES[2]], [LIB_PROBES[2], SHIPPED[3], LIB_PROBES[0]]]
    for doc in range(doc_lo, doc_hi):
        for st_ in sts:
            acc.run("parse", o_parse, {"doc": doc, "parse_stack": st_, "append_middleware": None, "via": "string"}, True)
            acc.run("parse", o_parse, {"doc": doc, "parse_stack": None, "append_middleware": st_, "via": "string"}, True)
        acc.run("parse", o_parse, {"doc": doc, "parse_stack": None, "append_middleware": None, "via": "string"}, True)
        for a, b in (([], []), ([LIB_PROBES[0]], []), ([], [LIB_PROBES[0]]), ([LIB_PROBES[0]], [LIB_PROBES[1]])):
            for via in ("string", "file"):
                acc.run("parse", o_parse, {"doc": doc, "parse_stack": a, "append_middleware": b, "via": via, "encoding": "utf-8"}, True)
        for enc in ("utf-8", "latin-1", "gbk", "utf-16"):
            for st_ in ([], [LIB_PROBES[0], LIB_PROBES[1]]):
                acc.run("parse", o_parse, {"doc": doc, "parse_stack": None, "append_middleware": st_, "via": "file", "encoding": enc}, True)
                acc.run("parse", o_parse, {"doc": doc, "parse_stack": st_, "append_middleware": None, "via": "file", "encoding": enc}, True)


def w_block_probes(acc, kind_i):
    kind = KINDS[kind_i]
    for ret in RETURNS:
        for doc in range(N_DOCS):
            spec = {"probe": "block", "rets": {kind: ret}}
            acc.run("parse", o_parse, {"doc": doc, "parse_stack": [spec], "append_middleware": None, "via": "string"}, True)
            acc.run("parse", o_parse, {"doc": doc, "parse_stack": None, "append_middleware": [spec, LIB_PROBES[0]], "via": "string"}, True)
            acc.run("write", o_write, {"doc": doc, "unparse_stack": None, "prepend_middleware": [spec], "fmt": None, "via": "string"}, True)
    if kind in ("entry", "string"):
        for doc in range(N_DOCS):
            sub = {"probe": "block", "rets": {kind: "subclass"}}
            tag = {"probe": "block", "rets": {kind: "tag"}}
            acc.run("parse", o_parse, {"doc": doc, "parse_stack": [sub, tag, LIB_PROBES[0]], "append_middleware": None, "via": "string"}, True)
            acc.run("parse", o_parse, {"doc": doc, "parse_stack": None, "append_middleware": [sub, tag, tag], "via": "string"}, True)
    for r1, r2 in itertools.product(["none", "list2", "tuple3", "empty-list"], repeat=2):
        for doc in range(N_DOCS):
            spec = {"probe": "block", "rets": {kind: r1, KINDS[(kind_i + 1) % 5]: r2}}
            acc.run("parse", o_parse, {"doc": doc, "parse_stack": [spec, LIB_PROBES[1]], "append_middleware": None, "via": "string"}, True)


def w_into_library(acc):
    """parse_string(text, library=existing): probes and shipped middlewares see (and act on) the whole library."""
    docs = [0, 3, 7, 14, 15, 16, 17]
    stacks_ = [None, [], [LIB_PROBES[0]], [LIB_PROBES[0], LIB_PROBES[1]], [{"probe": "block", "rets": {"entry": "tag"}}], [{"probe": "block", "rets": {"string": "none"}}, LIB_PROBES[2]],
               [{"mw": "ResolveStringReferences"}], [{"mw": "ResolveStringReferences"}, {"mw": "RemoveEnclosing"}, LIB_PROBES[1]], [SHIPPED[5], LIB_PROBES[0]],
               [{"mw": "ResolveStringReferences", "inplace": False}, {"mw": "RemoveEnclosing", "inplace": False}], [{"mw": "NormalizeFieldKeys", "inplace": False}, LIB_PROBES[0]]]
    for doc in docs:
        for into in docs:
            for st_ in stacks_:
                acc.run("parse", o_parse, {"doc": doc, "into": into, "parse_stack": st_, "append_middleware": None, "via": "string"}, True)
                if st_ is not None:
                    acc.run("parse", o_parse, {"doc": doc, "into": into, "parse_stack": None, "append_middleware": st_, "via": "string"}, True)


def w_raw_block_probes(acc):
    """Probes overriding transform_block: failed blocks (parse failures, duplicate keys / fields) are blocks like any other."""
    for ret in FAILED_RETURNS:
        for doc in range(N_DOCS):
            for rets in ({"failed": ret}, {"failed": ret, "entry": "list2"}, {"failed": "list2", "entry": ret}):
                spec = {"probe": "rawblock", "rets": rets}
                acc.run("parse", o_parse, {"doc": doc, "parse_stack": [spec], "append_middleware": None, "via": "string"}, True)
                acc.run("parse", o_parse, {"doc": doc, "parse_stack": None, "append_middleware": [spec, LIB_PROBES[0]], "via": "string"}, True)
                acc.run("write", o_write, {"doc": doc, "unparse_stack": [spec], "prepend_middleware": None, "fmt": None, "via": "string"}, True)
    acc.classes["raw-block-probe"] += 1


def w_routes(acc, mw_lo, mw_hi):
    for mwi in range(mw_lo, mw_hi):
        for doc in ([-1, 0, 5, 10, 14, 15, 16] if os.environ.get("_VERIF_TIER") != "thorough" else [-1] + list(range(N_DOCS))):
            for pi in range(len(ROUTE_PREFIXES)):
                for raw in (False, True):
                    for inplace in (True, False):
                        acc.run("routes", o_routes, {"doc": doc, "raw": raw, "prefix": pi, "mw": mwi, "inplace": inplace}, True)


def w_containers(acc):
    """The stack parameters accept any iterable of middlewares: the same cases with tuples, one-shot iterators,
    generators and deques instead of lists (incl. the both-given cases and the file entry points)."""
    two = [LIB_PROBES[0], LIB_PROBES[1]]
    for c in CONTAINERS[1:]:
        for doc in (0, 5, 14, 16, 17):
            for st_ in ([], [LIB_PROBES[2]], two, [SHIPPED[0], LIB_PROBES[0]], [SHIPPED[3], LIB_PROBES[1], LIB_PROBES[0]]):
                for via in ("string", "file"):
                    acc.run("parse", o_parse, {"doc": doc, "parse_stack": st_, "append_middleware": None, "via": via, "encoding": "utf-8", "container": c}, True)
                    acc.run("parse", o_parse, {"doc": doc, "parse_stack": None, "append_middleware": st_, "via": via, "encoding": "utf-8", "container": c}, True)
                for via in ("string", "path", "stringio"):
                    acc.run("write", o_write, {"doc": doc, "unparse_stack": st_, "prepend_middleware": None, "fmt": None, "via": via, "container": c}, True)
                    acc.run("write", o_write, {"doc": doc, "unparse_stack": None, "prepend_middleware": st_, "fmt": None, "via": via, "container": c}, True)
            for a, b in (([], []), (two, []), ([], two), ([LIB_PROBES[0]], [LIB_PROBES[1]])):
                acc.run("parse", o_parse, {"doc": doc, "parse_stack": a, "append_middleware": b, "via": "string", "container": c}, True)
                acc.run("write", o_write, {"doc": doc, "unparse_stack": a, "prepend_middleware": b, "fmt": None, "via": "string", "container": c}, True)
            acc.run("parse", o_parse, {"doc": doc, "into": 3, "parse_stack": None, "append_middleware": two, "via": "string", "container": c}, True)


def w_isolation(acc):
    for doc in range(N_DOCS):
        for edit in ("append", "pop", "clear"):
            acc.run("isolation", o_default_stack_isolation, {"doc": doc, "edit": edit}, True)


def w_write_grid(acc, doc_lo, doc_hi):
    sts = stacks(2)
    fmts = [None, {"value_column": "auto", "trailing_comma": True}, {"indent": "", "block_separator": "\n"}]
    for doc in range(doc_lo, doc_hi):
        for st_ in sts:
            acc.run("write", o_write, {"doc": doc, "unparse_stack": st_, "prepend_middleware": None, "fmt": None, "via": "string"}, True)
            acc.run("write", o_write, {"doc": doc, "unparse_stack": None, "prepend_middleware": st_, "fmt": None, "via": "string"}, True)
        for via, enc in (("path", "utf-8"), ("stringio", "utf-8"), ("file", "utf-8"), ("file", "latin-1"), ("file", "gbk"), ("file", "utf-16")):
            for fmt in fmts:
                for us, pm in ((None, None), ([LIB_PROBES[0], LIB_PROBES[1]], None), (None, [LIB_PROBES[1], LIB_PROBES[0]]), ([SHIPPED[4]], None), ([], []), ([LIB_PROBES[0]], [LIB_PROBES[0]])):
                    acc.run("write", o_write, {"doc": doc, "unparse_stack": us, "prepend_middleware": pm, "fmt": fmt, "via": via, "encoding": enc}, True)
        for us, pm in (([], []), ([LIB_PROBES[0]], []), ([], [LIB_PROBES[0]])):
            acc.run("write", o_write, {"doc": doc, "unparse_stack": us, "prepend_middleware": pm, "fmt": None, "via": "string"}, True)


def w_random(acc, n, seed):
    from hypothesis import strategies as st

    spec = st.one_of(st.sampled_from(LIB_PROBES), st.sampled_from(LIB_PROBES), st.sampled_from(SHIPPED),
                     st.dictionaries(st.sampled_from(KINDS), st.sampled_from(RETURNS), max_size=2).map(lambda r: {"probe": "block", "rets": r}))
    stack = st.one_of(st.none(), st.lists(spec, max_size=3))
    p = st.fixed_dictionaries({"doc": st.integers(0, N_DOCS - 1), "parse_stack": stack, "append_middleware": stack, "via": st.sampled_from(["string", "file"]),
                               "encoding": st.sampled_from(["utf-8", "latin-1", "gbk", "utf-16"]), "container": st.sampled_from(CONTAINERS + ["list", "list"])})
    harness.run_hyp(acc, "parse", o_parse, p, n, seed)
    w = st.fixed_dictionaries({"doc": st.integers(0, N_DOCS - 1), "unparse_stack": stack, "prepend_middleware": stack, "fmt": st.one_of(st.none(), libgen.st_format()),
                               "via": st.sampled_from(["string", "path", "file", "stringio"]), "encoding": st.sampled_from(["utf-8", "latin-1", "gbk", "utf-16"]),
                               "container": st.sampled_from(CONTAINERS + ["list", "list"])})
    harness.run_hyp(acc, "write", o_write, w, n, seed)


def run(chk):
    quick = chk.tier == "quick"
    tasks = []
    for lo, hi in harness.chunks(N_DOCS, 6):
        tasks.append(("w_parse_grid", (lo, hi)))
        tasks.append(("w_write_grid", (lo, hi)))
    for k in range(len(KINDS)):
        tasks.append(("w_block_probes", (k,)))
    tasks.append(("w_isolation", ()))
    tasks.append(("w_containers", ()))
    tasks.append(("w_raw_block_probes", ()))
    tasks.append(("w_into_library", ()))
    nspec = len(libgen.all_middleware_specs())
    tasks += [("w_routes", (lo, min(nspec, lo + 4))) for lo in range(0, nspec, 4)]
    n_rand = 40000 if quick else 400000
    shards = 16 if quick else 64
    for s in range(shards):
        tasks.append(("w_random", (n_rand // shards, harness.seed_for(chk.seed, PROP, s))))
    harness.pmap(chk.acc, MODNAME, tasks)
    chk.acc.exhaustive["grid"] = (
        f"{N_DOCS} documents x all stacks of <= 2 members of (2 library probes + 3 shipped middlewares) in parse_stack / append_middleware / "
        f"unparse_stack / prepend_middleware; both-arguments cases on all entry points; parse_file x 4 encodings; write_file x path / "
        f"StringIO / file object x 4 encodings x 3 formats x 6 stack arguments; block probes: 5 block kinds x {len(RETURNS)} result kinds"
    )
    chk.rule = (
        "cases = (document, entry point, stack arguments, their container kind (list / tuple / one-shot iterator / generator / deque - the "
        "parameters are annotated Iterable[Middleware]; a list handed over must come back unchanged), encoding / target, format). Probe middlewares written in the harness: "
        "order-sensitive library probes (tag every entry, append a comment naming how many blocks they saw) and block probes "
        "returning per block kind None / [] / () / the block / lists and tuples of blocks / generator / non-block objects / falsy "
        "non-blocks / collections containing a non-block. Oracle: differential against the documented composition (split, then "
        "the given stack in order or the documented default stack + additions; default write stack = brace-enclose on a copy; "
        "writer), compared as outcomes incl. exception type (ValueError when both arguments are given, TypeError for non-block "
        "results); parse_file == parse_string of the decoded text, write_file leaves exactly write_string's text in the path / file "
        "object / StringIO; block kinds reach their own transform_* method, failed blocks pass through. Non-trivial: >= 2 "
        "order-sensitive members, a non-UTF-8 file with non-ASCII content, a block probe returning something other than one block, "
        "or a file target."
    )
    chk.required_classes = ["parse:string", "parse:file", "write:string", "write:path", "write:file", "write:stringio", "both-given", ">=2-order-sensitive", "block-probe", "raw-block-probe", "into-existing-library", "stack-as-tuple", "stack-as-iterator", "stack-as-generator", "stack-as-deque", "routes:middleware-had-an-effect", "enc:gbk", "enc:utf-16", "enc:latin-1", "non-ascii-file", "default-stack-isolation"]
    chk.assumptions = ["documents contain no carriage return (text-mode file reading translates line endings)", "an empty non-list collection returned by a block middleware (e.g. '') counts as 'empty'; not asserted either way"]
