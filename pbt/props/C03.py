"""C03 - block raw texts tile the source without loss or overlap; line numbers are true."""
import re

import bibtexparser
from bibtexparser.middlewares.parsestack import default_parse_stack
from bibtexparser.model import DuplicateFieldKeyBlock, Entry, ParsingFailedBlock

from .. import bibgen, harness, splitcheck, splitinputs, tokens

PROP = "C03"
MODNAME = __name__


def text_classes(text):
    out = []
    if "\\\n" in text:
        out.append("backslash-newline")
    if "\r\n" in text:
        out.append("crlf")
    if "\n" in text:
        out.append("has-newline")
    if re.search(r"\}[^\n]*@\w*[ \t]*\{", text):
        out.append("two-blocks-on-a-line")
    return out


def o_text(text):
    res = _o_text(text, bibtexparser.parse_string(text))
    if res[0] is None and res[1]:
        # the other way to run the default stack: copying middlewares (every block of the result is a copy)
        r2 = _o_text(text, bibtexparser.parse_string(text, parse_stack=default_parse_stack(allow_inplace_modification=False)))
        if r2[0] is not None:
            return ((r2[0][0] + ":copy-mode-stack",) + tuple(r2[0][1:]), r2[1], list(r2[2]) + ["copy-mode-stack"])
        return (None, res[1], list(res[2]) + ["copy-mode-stack"])
    return res


def _o_text(text, lib):
    blocks = lib.blocks
    cls = text_classes(text)
    nfail = 0
    for b in blocks:
        if isinstance(b, ParsingFailedBlock):
            nfail += 1
            reason = getattr(b.error, "abort_reason", "") or ""
            if "Unexpected block start" in reason:
                cls.append("failed:ended-by-opener")
            elif "end of file" in reason:
                cls.append("failed:ended-by-eof")
            elif reason:
                cls.append("failed:ended-by-unexpected-mark")
    nontrivial = "\n" in text and (len(blocks) >= 2 or nfail >= 1)
    fail, positions = splitcheck.tiling(text, blocks)
    if fail:
        return (fail, nontrivial, cls)
    for b, p in zip(blocks, positions):
        want = text.count("\n", 0, p)
        if b.start_line != want:
            kind = "failed" if isinstance(b, ParsingFailedBlock) else type(b).__name__
            return ((f"start-line:{kind}", f"{splitcheck.describe_block(b)} reports line {b.start_line}", f"line {want} (offset {p})"), nontrivial, cls)
        e = b.ignore_error_block if isinstance(b, ParsingFailedBlock) else b
        if isinstance(e, Entry):
            last = want + b.raw.count("\n")
            for f in e.fields:
                if not isinstance(f.start_line, int) or not (want <= f.start_line <= last):
                    return (("field-line-outside-block", f"field {f.key!r} reports line {f.start_line}", f"a line of the block ({want}..{last})"), nontrivial, cls)
    return (None, nontrivial, cls)


def o_deriv(deriv):
    text, expected = bibgen.render(deriv)
    res = o_text(text)
    if res[0] is not None:
        return res
    cls = list(res[2]) + ["derivation"]
    lib = bibtexparser.parse_string(text)
    if len(lib.blocks) != len(expected):
        return (None, res[1], cls)  # C02's subject, not asserted twice
    nf = 0
    for b, e in zip(lib.blocks, expected):
        if e["kind"] != "entry":
            continue
        ent = b.ignore_error_block if isinstance(b, ParsingFailedBlock) else b
        if not isinstance(ent, Entry) or len(ent.fields) != len(e["fields"]):
            continue
        for f, ef in zip(ent.fields, e["fields"]):
            if ef["key_line"] == ef["eq_line"]:
                nf += 1
                if f.start_line != ef["eq_line"]:
                    return (("field-line", f"field {f.key!r} of {ent.key!r} reports line {f.start_line}", f"line {ef['eq_line']} (key and '=' are on it)"), True, cls)
            else:
                cls.append("key-and-equals-on-different-lines")
    return (None, res[1] or nf > 0, cls)


SUBS = {"text": o_text, "deriv": o_deriv}


def w_sigma(acc, L, prefix):
    harness.run_cases(acc, "text", o_text, splitinputs.sigma_s_texts(L, prefix), True)


def w_frame(acc, frame, L, prefix):
    harness.run_cases(acc, "text", o_text, splitinputs.frame_texts(frame, L, prefix), True)


def w_large(acc, n):
    acc.run("deriv", o_deriv, bibgen.large_document(n), True)
    for name, text in splitinputs.scaled_families(n):
        if len(text) < 400000:
            acc.run("text", o_text, text, True)
    acc.classes["large-document"] += 1


def w_random(acc, n, seed):
    harness.run_hyp(acc, "text", o_text, splitinputs.st_garbage(), n, seed)
    harness.run_hyp(acc, "deriv", o_deriv, bibgen.strategies(), n, seed)
    harness.run_hyp(acc, "deriv", o_deriv, bibgen.strategies(key_pool=["a", "b"], fkey_pool=["x", "y", "z"]), max(50, n // 4), seed + 1)


def run(chk):
    quick = chk.tier == "quick"
    L = 5 if quick else 6
    FL = 4 if quick else 6
    tasks = [("w_sigma", t) for t in tokens.seq_tasks(tokens.SIGMA_S, L)]
    for fr in splitinputs.FRAMES_S:
        tasks += [("w_frame", (fr,) + t) for t in tokens.seq_tasks(tokens.SIGMA_F, FL, prefix_len=1 if FL <= 5 else 2)]
    tasks += [("w_large", (n,)) for n in ((130, 300, 1100) if quick else (130, 300, 1100, 4200))]
    n_rand = 24000 if quick else 400000
    shards = 16 if quick else 64
    for s in range(shards):
        tasks.append(("w_random", (n_rand // shards, harness.seed_for(chk.seed, PROP, s))))
    harness.pmap(chk.acc, MODNAME, tasks)
    chk.acc.exhaustive["sigma_s"] = f"every sequence of <= {L} tokens of {tokens.SIGMA_S!r}"
    chk.acc.exhaustive["frames"] = f"every sequence of <= {FL} tokens of {tokens.SIGMA_F!r} inside the frames {splitinputs.FRAMES_S!r}"
    chk.rule = (
        "inputs = texts (well-formed or not). Engines: token enumeration over the splitter's mark classes, frames, Hypothesis "
        "garbage / mark soups / damaged documents, Hypothesis grammar derivations (also with colliding keys). Oracle on "
        "parse_string(text).blocks: one cursor walk (skip whitespace, raw must start there, non-empty, only whitespace "
        "left at the end) = raws tile the input in order without loss or overlap; start_line == number of newlines before "
        "the raw's offset; every field line within its block; for derivations each field whose key and '=' were generated "
        "on one line reports that line. Non-trivial: the input has a newline and yields >= 2 blocks or a failed block."
    )
    chk.required_classes = ["backslash-newline", "crlf", "two-blocks-on-a-line", "derivation", "copy-mode-stack"]
