"""C13 - name parts follow BibTeX's First/von/Last/Jr rules and keep every word once."""
import itertools

from bibtexparser.library import Library
from bibtexparser.middlewares.names import (
    InvalidNameError,
    NameParts,
    SplitNameParts,
    parse_single_name_into_parts,
)
from bibtexparser.model import Entry, Field, MiddlewareErrorBlock

from .. import harness, libgen, refnames, tokens

PROP = "C13"
MODNAME = __name__

WORDS = ["AA", "bb", "{cc}", "{\\'E}x", "{\\'e}x", "\\'Eb", "1b", "b\\", "\\Ab", "A{}b"]
SEPS = [" ", "~", ", ", ",", ", ~"]
SEPS_SMALL = [" ", ", "]


def classes_of(name, sections):
    out = []
    if sections is None:
        out.append("invalid")
        return out
    nwords = sum(len(s) for s in sections)
    out.append("form%d" % len(sections) if nwords else "empty")
    if nwords >= 3:
        out.append(">=3words")
    ws = [w for s in sections for w in s]
    if any(w.endswith("\\") for w in ws):
        out.append("word-ends-in-backslash")
    if any(w.startswith("{\\") for w in ws):
        out.append("special-char-word")
    if any(refnames.word_case(w) == refnames.CASELESS for w in ws):
        out.append("caseless-word")
    s0 = sections[0] if sections else []
    if len(s0) >= 3 and refnames.word_case(s0[-1]) == refnames.LOWER and any(refnames.word_case(w) == refnames.UPPER for w in s0[1:-1]):
        out.append("final-lower-after-upper")
    return out


def o_parse(name):
    try:
        sections = refnames.tokenize_name(name)
        ref_valid = True
    except refnames.Invalid:
        sections = None
        ref_valid = False
    cls = classes_of(name, sections)
    nontrivial = (not ref_valid) or sum(len(s) for s in sections) >= 3 or len(sections) > 1
    try:
        got = parse_single_name_into_parts(name, strict=True)
        got_valid = True
    except InvalidNameError:
        got_valid = False
    if got_valid != ref_valid:
        return (("validity", "valid" if got_valid else "InvalidNameError", "valid" if ref_valid else "invalid name"), nontrivial, cls)
    if not ref_valid:
        return (None, nontrivial, cls)
    if not isinstance(got, NameParts):
        return (("type", repr(got), "NameParts"), nontrivial, cls)
    parts = dict(first=got.first, von=got.von, last=got.last, jr=got.jr)
    for k, v in parts.items():
        if not isinstance(v, list) or not all(isinstance(w, str) for w in v):
            return (("type", repr(parts), "lists of str"), nontrivial, cls)
    # conservation, independent of the partition rules: per comma section each word once, in order
    if len(sections) == 1:
        per_section = [parts["first"] + parts["von"] + parts["last"]]
        extra = parts["jr"]
    elif len(sections) == 2:
        per_section = [parts["von"] + parts["last"], parts["first"]]
        extra = parts["jr"]
    else:
        per_section = [parts["von"] + parts["last"], parts["jr"], parts["first"]]
        extra = []
    if per_section != sections or extra:
        return (("conservation", repr(parts), f"words per comma section {sections!r}"), nontrivial, cls)
    # non-strict mode only works around the errors it detects (docstring): on a valid name it is the same function
    loose = parse_single_name_into_parts(name, strict=False)
    lparts = dict(first=loose.first, von=loose.von, last=loose.last, jr=loose.jr)
    if lparts != parts:
        return (("non-strict-differs-on-valid-name", repr(lparts), repr(parts)), nontrivial, cls)
    exp = refnames.parse_name(name)
    if exp is None:
        cls.append("case-unspecified")
        return (None, nontrivial, cls)
    if parts != exp:
        return (("partition:form%d" % len(sections), repr(parts), repr(exp)), nontrivial, cls)
    # history independence: the result belongs to the caller; altering it must not influence a later call
    snapshot = {k: list(v) for k, v in parts.items()}
    for lst in (got.first, got.von, got.last, got.jr):
        lst.append("<altered by caller>")
    again = parse_single_name_into_parts(name, strict=True)
    parts2 = dict(first=again.first, von=again.von, last=again.last, jr=again.jr)
    if again is got or parts2 != snapshot:
        return (("result-shared-between-calls", repr(parts2), repr(snapshot)), nontrivial, cls)
    return (None, nontrivial, cls)


def o_middleware(inp):
    """inp: {"fields": [[key, [names]]], "inplace": bool} - values are already separated lists."""
    fields = [Field(k, list(v), i) for i, (k, v) in enumerate(inp["fields"])]
    fields.append(Field("title", "{T}", 99))
    entry = Entry("article", "k", fields, start_line=3, raw="@article{k,...}")
    lib = Library([entry])
    out = libgen.maybe_preuse(libgen.construct(SplitNameParts, {"allow_inplace_modification": inp["inplace"]}, inp["fields"]), inp["fields"], same=lib).transform(lib)
    name_fields = ("author", "editor", "translator")
    invalid_in = None  # position of the first name field holding an invalid name
    for pos, (k, v) in enumerate(inp["fields"]):
        if k in name_fields:
            for n in v:
                try:
                    refnames.tokenize_name(n)
                except refnames.Invalid:
                    invalid_in = pos if invalid_in is None else invalid_in
    cls = ["mw-invalid" if invalid_in is not None else "mw-valid"]
    if len({k for k, _ in inp["fields"]}) < len(inp["fields"]):
        cls.append("mw-repeated-field-key")
    b = out.blocks[0] if len(out.blocks) == 1 else None
    if invalid_in is not None:
        if not isinstance(b, MiddlewareErrorBlock):
            return (("mw:no-error-block", repr(b), "MiddlewareErrorBlock"), True, cls)
        if not isinstance(b.error, InvalidNameError):
            return (("mw:error-type", repr(b.error), "InvalidNameError"), True, cls)
        inner = b.ignore_error_block
        if not isinstance(inner, Entry) or inner.key != "k" or inner.entry_type != "article":
            return (("mw:inner-entry", repr(inner), "the original entry"), True, cls)
        if [f.key for f in inner.fields] != [k for k, _ in inp["fields"]] + ["title"]:
            return (("mw:inner-fields", repr(inner.fields), "same field keys"), True, cls)
        got = inner.fields[invalid_in].value
        exp = inp["fields"][invalid_in][1]
        if got != exp:
            return (("mw:offending-field-altered", repr(got), repr(exp)), True, cls)
        if b.start_line != 3 or b.raw != "@article{k,...}":
            return (("mw:error-block-raw", repr((b.start_line, b.raw)), "start line and raw of the entry"), True, cls)
        return (None, True, cls)
    if not isinstance(b, Entry):
        return (("mw:valid-became", repr(b), "Entry"), True, cls)
    for f, (k, v) in zip(b.fields, inp["fields"]):
        if k in name_fields:
            exp = [parse_single_name_into_parts(n) for n in v]
            if f.value != exp or not all(isinstance(x, NameParts) for x in f.value):
                return (("mw:split-value", repr(f.value), repr(exp)), True, cls)
        elif f.value != v:
            return (("mw:other-field", repr(f.value), repr(v)), True, cls)
    # history independence at the middleware level: the NameParts handed out belong to that library; altering them
    # must not show up when the same names are split again (another entry, another library, another instance)
    expected_again = []
    for f, (k, v) in zip(b.fields, inp["fields"]):
        if k in name_fields:
            expected_again.append([(tuple(x.first), tuple(x.von), tuple(x.last), tuple(x.jr)) for x in f.value])
            for x in f.value:
                x.first.append("<altered>")
                x.last.insert(0, "<altered>")
        else:
            expected_again.append(None)
    fields2 = [Field(k, list(v), i) for i, (k, v) in enumerate(inp["fields"])]
    lib2 = Library([Entry("article", "k2", fields2, start_line=9, raw="@article{k2,...}")])
    out2 = libgen.construct(SplitNameParts, {"allow_inplace_modification": True}, inp["fields"]).transform(lib2)
    b2 = out2.blocks[0]
    if isinstance(b2, Entry):
        for f, exp_parts in zip(b2.fields, expected_again):
            if exp_parts is not None:
                got = [(tuple(x.first), tuple(x.von), tuple(x.last), tuple(x.jr)) for x in f.value]
                if got != exp_parts:
                    return (("mw:result-shared-between-libraries", repr(got), repr(exp_parts)), True, cls)
    return (None, len(inp["fields"]) > 0, cls)


SUBS = {"parse": o_parse, "middleware": o_middleware}


def word_level_names(nwords, words, seps, first_word=None, max_commas=2):
    """All names of nwords words with every choice of separator per gap (at most max_commas commas)."""
    sep_choices = [c for c in itertools.product(seps, repeat=nwords - 1) if sum("," in s for s in c) <= max_commas]
    first_pool = [first_word] if first_word is not None else words
    for w0 in first_pool:
        for rest in itertools.product(words, repeat=nwords - 1):
            ws = (w0,) + rest
            for sc in sep_choices:
                out = ws[0]
                for s, w in zip(sc, ws[1:]):
                    out += s + w
                yield out


def w_large(acc, n):
    words = [WORDS[i % len(WORDS)] for i in range(n) if not WORDS[i % len(WORDS)].endswith("\\")]
    acc.run("parse", o_parse, " ".join(words), True)
    acc.run("parse", o_parse, " ".join(words[: n // 2]) + ", " + " ".join(words[n // 2 :]), True)
    acc.run("parse", o_parse, " ".join(words[: n // 3]) + ", Jr, " + "~".join(words[n // 3 :]), True)
    acc.run("parse", o_parse, "AA " + "{" * n + "x" + "}" * n + " bb CC", True)
    acc.run("parse", o_parse, "AA " * n + "bb " * n + "CC", True)
    acc.classes["large-name"] += 1


def w_tok(acc, L, prefix):
    it = ("".join(t) for t in tokens.seqs(tokens.SIGMA_N, L, prefix))
    harness.run_cases(acc, "parse", o_parse, it, distinct_by_construction=True)


def w_words(acc, nwords, first_word, small):
    it = word_level_names(nwords, WORDS, SEPS_SMALL if small else SEPS, first_word)
    harness.run_cases(acc, "parse", o_parse, it, distinct_by_construction=True)


def name_strategy():
    from hypothesis import strategies as st

    pool = ["Knuth", "Donald", "E.", "von", "der", "de", "la", "van", "Beethoven", "Jr", "IV", "{de la}", "{Foo Bar}", "d'Ormesson",
            "Jean-Paul", "{\\'E}mile", "{\\'e}cole", "\\'Emile", "\\'ecole", "{\\ae}sop", "{\\AE}sop", "1st", "2b", "{cc}", "{Cc}", "{}", "{\\relax von}Last",
            "ÉCOLE", "école", "ß", "Ünal", "ünal", "x{\\'E}", "{x}y", "{x}Y", "b\\", "B\\\\", "\\\\", "\\", "~", "-", "'t", "A", "b", "3", "{\\'{E}}x",
            "{{\\'E}}x", "{a\\b}", "凯", "凯歌", "ǅx", "ªb", "ſx", "Ⅻ", "x\xa0y", "É", "é", "\\LaTeX", "\\aa", "\\AA", "Hef{}feron", "{}x", "x{}", "\\{", "\\}", "\\,", "{,}", "{ }", "a{b,c}d", "A{b c}d"]
    word = st.one_of(st.sampled_from(pool), st.sampled_from(WORDS), st.text(alphabet="aAbB1.-'éÉ", min_size=1, max_size=4))
    sep = st.sampled_from([" ", " ", " ", "~", ", ", ",", " , ", "  ", "\t", "\n", ", ~", "\r\n", "\r"])

    @st.composite
    def name(draw):
        n = draw(st.integers(1, 10))
        out = draw(word)
        for _ in range(n - 1):
            out += draw(sep) + draw(word)
        if draw(st.integers(0, 7)) == 0:
            pos = draw(st.integers(0, len(out)))
            out = out[:pos] + draw(st.sampled_from(["{", "}", ",", "\\", " "])) + out[pos:]
        return out

    return name()


def w_random(acc, n, seed):
    from hypothesis import strategies as st

    nm = name_strategy()
    harness.run_hyp(acc, "parse", o_parse, nm, n, seed)
    keys = st.sampled_from(["author", "editor", "translator", "note"])
    mw = st.fixed_dictionaries(
        {
            # an entry built through the model (or the inner entry of a duplicate-field block) may repeat a name field key:
            # every occurrence is split on its own
            "fields": st.one_of(st.lists(st.tuples(keys, st.lists(nm, min_size=0, max_size=4)), min_size=1, max_size=3, unique_by=lambda kv: kv[0]),
                                st.lists(st.tuples(keys, st.lists(nm, min_size=0, max_size=3)), min_size=2, max_size=4)).map(lambda l: [list(x) for x in l]),
            "inplace": st.booleans(),
        }
    )
    harness.run_hyp(acc, "middleware", o_middleware, mw, max(100, n // 4), seed)


def w_fuzz(acc, runs, seed):
    """Coverage-guided engine: names.py is a character-level state machine in pure Python, so libFuzzer's coverage
    feedback applies; the oracle (reference differential + invariants) runs inside the target."""
    from .. import fuzzrun

    fuzzrun.run_atheris(acc, "C13", "parse", o_parse, runs, seed, tokens.SIGMA_N, ["Donald E. Knuth", "von Last, Jr, First", "{\\\\'E}mile de la {Foo Bar}"], max_len=64)


def run(chk):
    bad = refnames.validate_on_corpus()
    if bad:
        raise harness.HarnessError(f"reference implementations disagree with the repository's BibTeX corpus: {bad[:3]}")
    quick = chk.tier == "quick"
    tok_len = 5 if quick else 6
    tasks = [("w_tok", t) for t in tokens.seq_tasks(tokens.SIGMA_N, tok_len)]
    tasks += [("w_large", (n,)) for n in (130, 300, 900)]
    full_words = 4 if quick else 5
    for nw in range(1, full_words + 1):
        for w0 in WORDS:
            tasks.append(("w_words", (nw, w0, False)))
    for w0 in WORDS:  # one more word with the reduced separator set
        tasks.append(("w_words", (full_words + 1, w0, True)))
    n_rand = 16000 if quick else 400000
    shards = 8 if quick else 32
    for s in range(shards):
        tasks.append(("w_random", (n_rand // shards, harness.seed_for(chk.seed, PROP, s))))
    tasks.insert(0, ("w_fuzz", (100000 if quick else 3000000, chk.seed)))
    harness.pmap(chk.acc, MODNAME, tasks)
    chk.acc.exhaustive["name-tokens"] = f"every sequence of length <= {tok_len} over the 13-token alphabet {tokens.SIGMA_N!r}"
    chk.acc.exhaustive["name-words"] = (
        f"every name of 1..{full_words} words over the 8 word classes {WORDS!r} with every separator per gap from {SEPS!r} "
        f"(at most two commas), and every name of {full_words + 1} words with separators from {SEPS_SMALL!r}"
    )
    chk.rule = (
        "inputs = single names. Engines: token-level and word-level bounded-exhaustive enumeration, Hypothesis names of "
        "1-10 words from a richer pool. Oracle: executable transcription of BibTeX's name rules (validated on the "
        "repository's 149+11 BibTeX-derived cases) for validity and the four part lists, plus reference-independent "
        "conservation per comma section; middleware level: invalid names become MiddlewareErrorBlock retaining the "
        "entry. Non-trivial: >= 3 words, or >= 1 comma, or invalid; distinct by input string."
    )
    chk.required_classes = ["invalid", "form1", "form2", "form3", ">=3words", "word-ends-in-backslash", "special-char-word", "caseless-word", "final-lower-after-upper"]
    chk.assumptions = [
        "word case is left unspecified (only validity and conservation asserted) for special-character look-alikes nested inside ordinary brace groups, nested braces inside a special character and backslash+letter inside an ordinary group: the statement does not define them and BibTeX and the documented algorithm differ there",
    ]
