"""C14 - splitting names and merging them back is an inverse pair through the whole stack."""
import itertools
import re

import bibtexparser
from bibtexparser.library import Library
from bibtexparser.middlewares.names import (
    InvalidNameError,
    MergeCoAuthors,
    MergeNameParts,
    NameParts,
    SeparateCoAuthors,
    SplitNameParts,
    parse_single_name_into_parts,
    split_multiple_persons_names,
)
from bibtexparser.model import Entry, Field

from .. import harness, libgen, refnames, tokens
from ..compare import canon
from . import C13

PROP = "C14"
MODNAME = __name__

WORDS14 = [w for w in C13.WORDS if not w.endswith("\\")]
_ODD_BS = re.compile(r"(?<!\\)(\\\\)*\\$")


def precondition(v):
    """The property's domain: v splits (reference splitter) into >= 1 persons, each a valid name with a
    non-empty Last, no word ending in an odd number of backslashes and no bare word 'and'.
    Returns the list of persons or None."""
    if not refnames.brace_balanced(v):
        return None
    persons = refnames.split_names(v)
    if not persons:
        return None
    for p in persons:
        try:
            sections = refnames.tokenize_name(p)
        except refnames.Invalid:
            return None
        if not sections or not sections[0]:
            return None  # empty Last
        for sec in sections:
            for w in sec:
                if _ODD_BS.search(w) or w.lower() == "and":
                    return None
    return persons


def _parts(np):
    return (tuple(np.first), tuple(np.von), tuple(np.last), tuple(np.jr))


def classes_of(persons, P):
    out = ["persons>=2" if len(persons) >= 2 else "persons=1"]
    if any(p.von for p in P):
        out.append("has-von")
    if any(p.jr for p in P):
        out.append("has-jr")
    if any(len(p.last) >= 2 for p in P):
        out.append("multiword-last")
    return out


def o_pair(v):
    persons = precondition(v)
    if persons is None:
        return (None, False, ("outside-domain",))
    P = [parse_single_name_into_parts(n) for n in split_multiple_persons_names(v)]
    cls = classes_of(persons, P)
    nontrivial = len(P) >= 2 or any(p.von or p.jr for p in P)
    # the non-strict route of the splitting function: same persons and parts on valid names
    P0 = [parse_single_name_into_parts(n, strict=False) for n in split_multiple_persons_names(v)]
    if [_parts(p) for p in P0] != [_parts(p) for p in P]:
        return (("non-strict-differs-on-valid-names", repr([_parts(p) for p in P0]), repr([_parts(p) for p in P])), nontrivial, cls)
    v2 = " and ".join(p.merge_last_name_first for p in P)
    try:
        P2 = [parse_single_name_into_parts(n) for n in split_multiple_persons_names(v2)]
    except InvalidNameError as e:
        return (("merged-invalid", f"{v2!r}: {e}", "re-splits into the same persons"), nontrivial, cls)
    if [_parts(p) for p in P2] != [_parts(p) for p in P]:
        return (("inverse", f"{v2!r} -> {[_parts(p) for p in P2]!r}", repr([_parts(p) for p in P])), nontrivial, cls)
    return (None, nontrivial, cls)


def o_middleware(inp):
    """inp: {"fields": [[key, value]], "inplace": bool}: the four middlewares on a Library."""
    for k, v in inp["fields"]:
        if k in ("author", "editor", "translator") and precondition(v) is None:
            return (None, False, ("outside-domain",))
    fields = [Field(k, v, i) for i, (k, v) in enumerate(inp["fields"])]
    lib = Library([Entry("book", "k", fields, 0, "raw")])
    kw = dict(allow_inplace_modification=inp["inplace"])
    l1 = libgen.construct(SplitNameParts, kw, inp["fields"]).transform(libgen.construct(SeparateCoAuthors, kw, inp["fields"]).transform(lib))
    structured = [(f.key, canon(f.value)) for f in l1.blocks[0].fields] if isinstance(l1.blocks[0], Entry) else None
    if structured is None:
        return (("mw:split-failed", repr(l1.blocks[0]), "Entry"), True, ("mw",))
    l2 = libgen.construct(MergeCoAuthors, kw, inp["fields"]).transform(libgen.construct(MergeNameParts, dict(kw, style="last"), inp["fields"]).transform(l1))
    e2 = l2.blocks[0]
    if not isinstance(e2, Entry) or not all(isinstance(f.value, str) for f in e2.fields):
        return (("mw:merge-type", repr(e2), "entry with string values"), True, ("mw",))
    l3 = libgen.construct(SplitNameParts, kw, ("again", inp["fields"])).transform(libgen.construct(SeparateCoAuthors, kw, ("again", inp["fields"])).transform(l2))
    e3 = l3.blocks[0]
    again = [(f.key, canon(f.value)) for f in e3.fields] if isinstance(e3, Entry) else repr(e3)
    if again != structured:
        return (("mw:inverse", repr(again), repr(structured)), True, ("mw",))
    return (None, True, ("mw",))


def _bs_before_close(v):
    return v.endswith("\\")


def o_stack(inp):
    """inp: {"field": key, "value": v, "quote": bool}: parse_string(append) -> write_string(prepend) -> parse."""
    v = inp["value"]
    if precondition(v) is None or '"' in v or "@" in v:
        return (None, False, ("outside-domain",))
    if _bs_before_close(v):
        return (None, False, ("outside-domain:value-ends-in-backslash",))
    enc = '"%s"' % v if inp["quote"] else "{%s}" % v
    doc = "@book{k1,\n  %s = %s,\n  title = {T}\n}\n" % (inp["field"], enc)
    app = [SeparateCoAuthors(), SplitNameParts()]
    l1 = bibtexparser.parse_string(doc, append_middleware=app)
    cls = ["stack", "quoted" if inp["quote"] else "braced"]
    if l1.failed_blocks or len(l1.entries) != 1:
        return (("stack:first-parse", repr(l1.blocks), "one entry"), True, cls)
    names1 = l1.entries[0][inp["field"]]
    if not (isinstance(names1, list) and all(isinstance(x, NameParts) for x in names1)):
        return (("stack:not-structured", repr(names1), "list of NameParts"), True, cls)
    text = bibtexparser.write_string(l1, prepend_middleware=[MergeNameParts(), MergeCoAuthors()])
    l2 = bibtexparser.parse_string(text, append_middleware=[SeparateCoAuthors(), SplitNameParts()])
    if l2.failed_blocks or len(l2.entries) != 1:
        return (("stack:reparse-failed", f"{text!r} -> {l2.blocks!r}", "one entry, no failed block"), True, cls)
    names2 = l2.entries[0][inp["field"]]
    if canon(names2) != canon(names1):
        return (("stack:inverse", f"{text!r} -> {names2!r}", repr(names1)), True, cls)
    if canon(l2.entries[0]["title"]) != canon(l1.entries[0]["title"]):
        return (("stack:other-field", repr(l2.entries[0]["title"]), repr(l1.entries[0]["title"])), True, cls)
    return (None, True, cls)


SUBS = {"pair": o_pair, "middleware": o_middleware, "stack": o_stack}


def _ref_merged(v):
    """The last-name-first merge of v computed with the reference implementation only."""
    out = []
    for p in refnames.split_names(v):
        d = refnames.parse_name(p)
        if d is None:
            return None
        secs = [" ".join(d["von"] + d["last"]), " ".join(d["jr"]), " ".join(d["first"])]
        out.append(", ".join(x for x in secs if x))
    return " and ".join(out)


def kf_merged_value_ends_in_backslash(sub, inp, fail):
    """F-20: the merged (last-name-first) field value ends in a backslash, so the writer emits
    `...\\}` and the splitter does not see the closing brace."""
    if sub != "stack" or fail[0] != "stack:reparse-failed":
        return False
    m = _ref_merged(inp["value"])
    return m is not None and m.endswith("\\")


def w_tok(acc, L, prefix):
    it = ("".join(t) for t in tokens.seqs(tokens.SIGMA_N, L, prefix))
    harness.run_cases(acc, "pair", o_pair, it, distinct_by_construction=True)


def w_words(acc, nwords, first_word, small):
    it = C13.word_level_names(nwords, WORDS14, C13.SEPS_SMALL if small else C13.SEPS, first_word)
    harness.run_cases(acc, "pair", o_pair, it, distinct_by_construction=True)


GROUPS = ["{Simon and Schuster}", "{Procter {\\&} Gamble and Co.}", "{{a} and b}", "{a {b} and {c} and d}", "{{{x}} and {y {z} and w}}", "{and}", "{A and}{ and B}",
          # an escaped brace inside the group does not end it: the ` and ` after it is still protected
          "{Barnes\\} and Noble}", "{a \\{ and b}", "{x\\} and {y\\{ and z} and w}"]
TEMPLATES = ["%s", "Xx %s", "%s, Xx", "von %s, Jr, Xx", "%s Yy", "xx %s"]


def w_protected_and(acc, gi):
    """The word ` and ` protected by (nested) braces inside a person: it never separates co-authors, at any depth."""
    persons = [t % GROUPS[gi] for t in TEMPLATES]
    others = [t % g for t in TEMPLATES[:3] for g in GROUPS] + ["Aa Bb", "de la Fontaine, Jean"]
    for p in persons:
        vals = [p] + [p + " and " + o for o in others] + [o + " and " + p for o in others] + [o + " and " + p + " and " + o2 for o in others[:6] for o2 in others[-4:]]
        for v in vals:
            acc.run("pair", o_pair, v, True)
            acc.run("middleware", o_middleware, {"fields": [["author", v], ["title", "T and U"]], "inplace": len(v) % 2 == 0}, True)
            acc.run("stack", o_stack, {"field": "editor" if len(v) % 3 else "author", "value": v, "quote": False}, True)
    acc.classes["and-inside-nested-group"] += 1


def w_large(acc, n):
    persons = ["AA%d bb CC%d" % (i, i) if i % 2 else "bb%d Dd%d, Jr, Ee {Ff%d}" % (i, i, i) for i in range(n)]
    v = " and ".join(persons)
    acc.run("pair", o_pair, v, True)
    acc.run("stack", o_stack, {"field": "author", "value": v, "quote": False}, True)
    acc.run("pair", o_pair, " ".join("AA%d" % i for i in range(n)) + " bb " + " ".join("CC%d" % i for i in range(n)), True)
    acc.classes["large-list"] += 1


def w_stack_enum(acc, nwords):
    cases = []
    for name in C13.word_level_names(nwords, WORDS14, C13.SEPS_SMALL):
        for fld, q in (("author", False), ("editor", True)):
            cases.append({"field": fld, "value": name, "quote": q})
    harness.run_cases(acc, "stack", o_stack, cases, distinct_by_construction=True)


def _person_strategy():
    from hypothesis import strategies as st

    pool = ["Knuth", "Donald", "E.", "von", "der", "de", "la", "van", "Beethoven", "Jr", "IV", "{de la}", "{Foo Bar}", "d'Ormesson",
            "Jean-Paul", "{\\'E}mile", "{\\'e}cole", "\\'Emile", "\\'ecole", "1st", "2b", "{cc}", "{Cc}", "ÉCOLE", "école", "Ünal",
            "x{\\'E}", "{x}y", "{x}Y", "B\\\\", "'t", "A", "b", "{and}", "{a and b}", "Band", "andy", "{,}", "a{b,c}d",
            "Fontaine\xa0", "\xa0van", "Last\u2003", "\x0bX", "y\x0c", "\x85Z"]
    word = st.one_of(st.sampled_from(pool), st.sampled_from(WORDS14))

    @st.composite
    def person(draw):
        form = draw(st.integers(1, 3))
        secs = []
        for _ in range(form):
            n = draw(st.integers(1, 4))
            ws = [draw(word) for _ in range(n)]
            sep = draw(st.sampled_from([" ", " ", "~", "  "]))
            secs.append(sep.join(ws))
        return draw(st.sampled_from([", ", ",", " , "])).join(secs)

    @st.composite
    def people(draw):
        n = draw(st.integers(1, 6))
        return draw(st.sampled_from([" and ", " AND ", "  and\n"])).join(draw(person()) for _ in range(n))

    return people()


def w_random(acc, n, seed):
    from hypothesis import strategies as st

    ppl = _person_strategy()
    harness.run_hyp(acc, "pair", o_pair, ppl, n, seed)
    keys = st.sampled_from(["author", "editor", "translator", "note"])
    mw = st.fixed_dictionaries(
        {
            "fields": st.lists(st.tuples(keys, ppl), min_size=1, max_size=3, unique_by=lambda kv: kv[0]).map(lambda l: [list(x) for x in l]),
            "inplace": st.booleans(),
        }
    )
    harness.run_hyp(acc, "middleware", o_middleware, mw, max(100, n // 4), seed)
    stack = st.fixed_dictionaries({"field": st.sampled_from(["author", "editor", "translator"]), "value": ppl, "quote": st.booleans()})
    harness.run_hyp(acc, "stack", o_stack, stack, max(100, n // 6), seed)


def run(chk):
    bad = refnames.validate_on_corpus()
    if bad:
        raise harness.HarnessError(f"reference implementations disagree with the repository's BibTeX corpus: {bad[:3]}")
    quick = chk.tier == "quick"
    tok_len = 5 if quick else 6
    tasks = [("w_tok", t) for t in tokens.seq_tasks(tokens.SIGMA_N, tok_len)]
    full_words = 4 if quick else 5
    for nw in range(1, full_words + 1):
        for w0 in WORDS14:
            tasks.append(("w_words", (nw, w0, False)))
    for w0 in WORDS14:
        tasks.append(("w_words", (full_words + 1, w0, True)))
    for nw in range(1, 4 if quick else 5):
        tasks.append(("w_stack_enum", (nw,)))
    tasks += [("w_large", (n,)) for n in (130, 300, 1100)]
    tasks += [("w_protected_and", (gi,)) for gi in range(len(GROUPS))]
    n_rand = 12000 if quick else 300000
    shards = 8 if quick else 32
    for s in range(shards):
        tasks.append(("w_random", (n_rand // shards, harness.seed_for(chk.seed, PROP, s))))
    harness.pmap(chk.acc, MODNAME, tasks)
    chk.acc.exhaustive["name-tokens"] = f"every sequence of length <= {tok_len} over {tokens.SIGMA_N!r} that satisfies the property's precondition"
    chk.acc.exhaustive["name-words"] = (
        f"every single person of 1..{full_words} words over {WORDS14!r} with separators {C13.SEPS!r} (<= 2 commas), "
        f"{full_words + 1} words with separators {C13.SEPS_SMALL!r}; full parse/write stack for 1..{3 if quick else 4} words"
    )
    chk.rule = (
        "inputs = author values (one or more persons). Domain restricted by construction/precondition to valid names with "
        "non-empty Last, no word ending in an odd number of backslashes and no bare word 'and' (decided by the reference "
        "tokeniser, not by the code under test); cases outside are counted as class 'outside-domain' and are trivial. "
        "Oracle: split+parse, merge last-name-first, join with ' and ', split+parse again == first structure; same through "
        "the four middlewares and through parse_string(append_middleware)/write_string(prepend_middleware)/parse_string. "
        "Non-trivial: >= 2 persons or a person with von or jr (pair), any in-domain case (middleware, stack)."
    )
    chk.required_classes = ["persons>=2", "has-von", "has-jr", "multiword-last", "mw", "stack", "quoted", "braced", "and-inside-nested-group"]
    chk.assumptions = [
        "full-stack sub-check: author values ending in a backslash are left out (the document would not be in the dialect: a closing delimiter directly after a backslash is not structural for the splitter)",
    ]
