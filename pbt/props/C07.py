"""C07 - writing and copy-mode middleware never mutate or alias their input."""
import copy
import itertools

import bibtexparser
from bibtexparser.library import Library
from bibtexparser.model import (
    DuplicateBlockKeyBlock,
    DuplicateFieldKeyBlock,
    Entry,
    MiddlewareErrorBlock,
    ParsingFailedBlock,
)

from .. import bibgen, harness, libgen
from ..compare import canon, mutable_ids

PROP = "C07"
MODNAME = __name__

DOCS = [
    # every block kind, name fields, month, string references, duplicates, failed blocks
    "@string{jan2 = \"January\"}\n@preamble{\"pre\"}\n% free text\n@comment{ec}\n"
    "@article{k1,\n  author = {Donald E. Knuth and Jean-Paul de la Fontaine, Jr, X},\n  editor = \"A. Editor\",\n  title = {A {T}itle with é and 100\\% $x^2$},\n  month = jan2,\n  year = 1999,\n  Note = {N}\n}\n"
    "@book{k1, title = {duplicate key}}\n@misc{k3, x = {1}, x = {2}}\n@broken{k4, title = {unterminated\n@misc{k5, month = 3, url = {http://example.org/a_b}}\n",
    "@article{n1, author = {A, B, C, D}, title = {too many commas}}\n@article{n2, author = {Good Name}, translator = {von Last, First and {Braced and Name}}, pages = 12}\n@string{s = {v}}\n@string{s = {again}}\n",
    "@misc{m1, title = {RAISEME in a value}, author = {Some One}}\n@misc{m2, title = {fine \\'e}, month = {March}}\ntrailing text",
    "@article{u1, Author = {Upper Key}, AUTHOR = {Second}, title = s # { tail}, month = \"12\"}\n@string{s = \"head\"}",
    "",
    "only free text\nwith two lines",
    "@comment{c1}\n@comment{c2}\n@a{z, t = {1}}\n@a{a, t = {2}}\n% attached\n@string{zz = {9}}\n@preamble{p}\n% trailing",
    # a file as reference managers write it: encoding header first, a group of entries that refer to one another, a
    # first holder of a key that a name middleware turns into an error block, blank lines between comment and block
    "% Encoding: UTF-8\n\n@comment{jabref-meta: databaseType:bibtex;}\n\n@inproceedings{child, crossref = {parent}, author = {Smith, John, Jr, Extra}, title = {C}}\n"
    "@inproceedings{child, crossref = {parent}, author = {Second Holder}, title = {D}}\n% note\n\n\n@proceedings{parent, title = {P}, editor = {Ed Itor}, doi = {10.1000/a_b}}\n",
]

PREPS = [
    [],
    [{"mw": "SeparateCoAuthors"}],
    [{"mw": "SeparateCoAuthors"}, {"mw": "SplitNameParts"}],
    [{"mw": "LatexEncoding", "custom": True}],
    [{"mw": "SeparateCoAuthors"}, {"mw": "SplitNameParts"}, {"mw": "LatexDecoding", "custom": True}],
    [{"mw": "MonthInt"}, {"mw": "NormalizeFieldKeys"}],
]


def build_input(inp):
    lib = bibtexparser.parse_string(inp["text"])
    for spec in inp["prep"]:
        if not libgen.stage_compatible(spec, lib):
            return None
        lib = libgen.make_middleware(spec, inplace=True).transform(lib)
    return lib


def library_classes(lib):
    cls = set()
    for b in lib.blocks:
        if type(b) is ParsingFailedBlock:
            cls.add("plain-failed-block")
        elif type(b) is DuplicateBlockKeyBlock:
            cls.add("duplicate-key-block")
        elif type(b) is DuplicateFieldKeyBlock:
            cls.add("duplicate-field-block")
        elif type(b) is MiddlewareErrorBlock:
            cls.add("mw-error:" + type(b.error).__name__)
        elif type(b) is Entry:
            for f in b.fields:
                if isinstance(f.value, list):
                    cls.add("list-value" if not f.value or isinstance(f.value[0], str) else "nameparts-value")
    return cls


def o_stack(inp):
    """inp: {"text", "prep": [specs applied in place to build the input library], "stack": [1-3 copy-mode specs],
             "write": format spec | "default" | None}"""
    lib = build_input(inp)
    if lib is None:
        return (None, False, ("prep-incompatible",))
    cls = library_classes(lib)
    c0 = canon(lib)
    ids_orig = mutable_ids(lib)
    try:
        snapshot = copy.deepcopy(lib)
    except Exception as e:
        return (("input-not-deepcopyable", f"deepcopy(library) raised {type(e).__name__}: {e}", "a library produced by the shipped middlewares can be deep-copied"), True, sorted(cls))
    if canon(snapshot) != c0:
        # the statement measures everything against "its prior deep copy": a deep copy that is not a faithful copy
        # (always is on the unchanged tree) breaks it before any middleware runs
        return (("deepcopy-of-input-differs-from-input", harness._short(canon(snapshot), 400), harness._short(c0, 400)), True, sorted(cls))
    cur = lib
    nontrivial = False
    for si, spec in enumerate(inp["stack"]):
        compatible = libgen.stage_compatible(spec, cur)
        mw = libgen.make_middleware(spec, inplace=False)
        c_before = canon(cur)
        ids_before = mutable_ids(cur)
        name = spec["mw"]
        try:
            out = mw.transform(cur)
        except Exception as e:
            if canon(cur) != c_before or canon(lib) != c0:
                return ((f"input-mutated-by-raising-stage:{name}", f"{type(e).__name__}: {e}", "input untouched"), True, sorted(cls))
            if compatible:
                raise
            cls.add("incompatible-stage-raised")
            break
        if canon(cur) != c_before:
            return ((f"stage-input-mutated:{name}", _diff(c_before, canon(cur)), "stage input equal to its prior state"), True, sorted(cls))
        if canon(lib) != c0:
            return ((f"original-mutated:{name}", _diff(c0, canon(lib)), "original library equal to its prior deep copy"), True, sorted(cls))
        if not isinstance(out, Library):
            return ((f"result-type:{name}", type(out).__name__, "Library"), True, sorted(cls))
        ids_out = mutable_ids(out)
        shared = set(ids_out) & set(ids_before)
        if shared:
            kinds = sorted({ids_out[i] for i in shared})
            return ((f"aliasing:{name}", f"{len(shared)} mutable objects shared with the stage input: {kinds}", "no shared mutable object"), True, sorted(cls))
        shared = set(ids_out) & set(ids_orig)
        if shared:
            kinds = sorted({ids_out[i] for i in shared})
            return ((f"aliasing-original:{name}", f"{len(shared)} mutable objects shared with the original library: {kinds}", "no shared mutable object"), True, sorted(cls))
        # one instance, the same input, a second time: same result, again nothing shared (also not with the first result)
        c_out = canon(out)
        out2 = mw.transform(cur)
        if canon(out2) != c_out or canon(out) != c_out or canon(cur) != c_before:
            return ((f"second-application-differs:{name}", _diff(c_out, canon(out2)), "the same result as the first application, first result and input untouched"), True, sorted(cls))
        shared = set(mutable_ids(out2)) & set(ids_before)
        if shared:
            return ((f"aliasing-second-application:{name}", f"{len(shared)} mutable objects of the second result are shared with the input", "no shared mutable object"), True, sorted(cls))
        if c_out != c_before:
            nontrivial = True
        cur = out
    w = inp.get("write")
    if w is not None and all(isinstance(f.value, str) for b in lib.blocks if type(b) is Entry for f in b.fields):
        fmt = None if w == "default" else libgen.build_format(w)
        st0 = libgen.format_state(fmt) if fmt is not None else None
        wkw = {}
        if inp.get("prepend") is not None:
            # prepended middlewares are built in copy mode: the default stack must still work on a copy
            wkw["prepend_middleware"] = [libgen.make_middleware(s_, inplace=False) for s_ in inp["prepend"]]
            cls.add("write-with-prepend")
        t1 = bibtexparser.write_string(lib, bibtex_format=fmt, **wkw)
        if canon(lib) != c0:
            return (("write-mutated-library", _diff(c0, canon(lib)), "library unchanged by write_string"), True, sorted(cls))
        if fmt is not None and libgen.format_state(fmt) != st0:
            return (("write-mutated-format", repr(libgen.format_state(fmt)), repr(st0)), True, sorted(cls))
        if "prepend_middleware" in wkw:
            wkw["prepend_middleware"] = [libgen.make_middleware(s_, inplace=False) for s_ in inp["prepend"]]
        t2 = bibtexparser.write_string(lib, bibtex_format=fmt, **wkw)
        if t1 != t2:
            return (("write-twice-differs", repr(t2), repr(t1)), True, sorted(cls))
        cls.add("write")
        nontrivial = True
    return (None, nontrivial, sorted(cls))


def _diff(a, b):
    ra, rb = repr(a), repr(b)
    i = next((k for k, (x, y) in enumerate(zip(ra, rb)) if x != y), min(len(ra), len(rb)))
    return f"...{ra[max(0, i - 60): i + 60]} -> ...{rb[max(0, i - 60): i + 60]}"


SUBS = {"stack": o_stack}


def w_grid(acc, spec_lo, spec_hi):
    specs = libgen.all_middleware_specs()
    for spec in specs[spec_lo:spec_hi]:
        for text, prep in itertools.product(DOCS, PREPS):
            acc.run("stack", o_stack, {"text": text, "prep": prep, "stack": [spec], "write": None}, True)


def w_write_grid(acc):
    fmts = ["default", {"value_column": "auto"}, {"indent": "", "trailing_comma": True, "block_separator": "\n"}, {"value_column": 20, "parsing_failed_comment": "% bad {n}"}]
    for text, prep, w in itertools.product(DOCS, PREPS, fmts):
        acc.run("stack", o_stack, {"text": text, "prep": prep, "stack": [], "write": w}, True)
        for pre in ([], [{"mw": "SortFieldsAlphabetically"}], [{"mw": "NormalizeFieldKeys"}, {"mw": "MonthInt"}]):
            acc.run("stack", o_stack, {"text": text, "prep": prep, "stack": [], "write": w, "prepend": pre}, True)


def w_random(acc, n, seed):
    from hypothesis import strategies as st

    specs = libgen.all_middleware_specs()

    def mk_text(args):
        ints, ops, doc_i, damaged = args
        base, _ = bibgen.render(bibgen.gen_document(ints, key_pool=["a", "b", "c"], fkey_pool=["title", "author", "month", "x", "editor"]))
        if damaged:
            it = iter(ops)
            base = bibgen.damage(base, lambda lo, hi: lo + next(it, 0) % (hi - lo + 1), 1 + ops[0] % 3)
        return base + "\n" + DOCS[doc_i % len(DOCS)]

    text = st.tuples(st.lists(st.integers(0, 255), min_size=20, max_size=150), st.lists(st.integers(0, 9999), min_size=4, max_size=10), st.integers(0, 50), st.booleans()).map(mk_text)
    strat = st.fixed_dictionaries({
        "text": text,
        "prep": st.sampled_from(PREPS),
        "stack": st.lists(st.sampled_from(specs), min_size=1, max_size=3),
        "write": st.one_of(st.none(), st.just("default"), libgen.st_format()),
        "prepend": st.one_of(st.none(), st.just([]), st.lists(st.sampled_from([{"mw": "SortFieldsAlphabetically"}, {"mw": "NormalizeFieldKeys"}, {"mw": "MonthAbbreviation"}]), max_size=2)),
    })
    harness.run_hyp(acc, "stack", o_stack, strat, n, seed)


def run(chk):
    quick = chk.tier == "quick"
    n_specs = len(libgen.all_middleware_specs())
    tasks = [("w_write_grid", ())]
    for lo, hi in harness.chunks(n_specs, 15):
        tasks.append(("w_grid", (lo, hi)))
    n_rand = 24000 if quick else 200000
    shards = 16 if quick else 64
    for s in range(shards):
        tasks.append(("w_random", (n_rand // shards, harness.seed_for(chk.seed, PROP, s))))
    harness.pmap(chk.acc, MODNAME, tasks)
    chk.acc.exhaustive["grid"] = f"every one of the {n_specs} middleware configurations (all shipped classes x option sets, copy mode) x {len(DOCS)} documents x {len(PREPS)} preparations; write_string x 4 formats x the same libraries"
    chk.rule = (
        "cases = (document, preparation stack applied in place to obtain typed values and error blocks, stack of 1-3 "
        "copy-mode middleware configurations, optional write_string format). Libraries come from parsing fixed documents "
        "(all block kinds, name fields incl. invalid names, months, references, duplicate-key, duplicate-field and plain "
        "failed blocks) and random/damaged grammar documents; preparations add list / NameParts values and "
        "MiddlewareErrorBlocks (InvalidNameError, PartialMiddlewareException). Oracle per stage: canon(input) unchanged "
        "(also the original library, also when a type-incompatible stage raises), result shares no mutable object "
        "(library, lists, dicts, blocks, fields, metadata, NameParts) with its input or the original; the library must be "
        "deep-copyable; write_string leaves library and format unchanged and gives the same text twice. Non-trivial: a "
        "stage whose output differs from its input, or a write."
    )
    chk.required_classes = ["plain-failed-block", "duplicate-key-block", "duplicate-field-block", "mw-error:InvalidNameError", "mw-error:PartialMiddlewareException",
                            "list-value", "nameparts-value", "write", "write-with-prepend", "incompatible-stage-raised"]
