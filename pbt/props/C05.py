"""C05 - parse -> write -> parse preserves content; written text is a fixpoint."""
import re

import bibtexparser
from bibtexparser.model import (
    Entry,
    ExplicitComment,
    ImplicitComment,
    ParsingFailedBlock,
    Preamble,
    String,
)

from .. import bibgen, harness, libgen, refparse, tokens
from .C11 import IDENT, strip1

PROP = "C05"
MODNAME = __name__

SEPARATORS = ["\n\n", "", "\n", "\n\n\n", " \n", "\r\n\r\n"]
FORMATS_E = [
    None,
    {"indent": "", "value_column": 0, "trailing_comma": True, "block_separator": ""},
    {"indent": "    ", "value_column": "auto", "trailing_comma": False, "block_separator": "\n"},
    {"indent": " \t", "value_column": 7, "trailing_comma": True, "block_separator": "\r\n\r\n"},
    {"indent": "\t", "value_column": 40, "trailing_comma": False, "block_separator": " \n"},
    {"indent": "  ", "value_column": 1, "trailing_comma": True, "block_separator": "\n\n\n"},
]


def content(lib):
    out = []
    for b in lib.blocks:
        if isinstance(b, ParsingFailedBlock):
            out.append(("FAILED", type(b).__name__, b.raw))
        elif isinstance(b, Entry):
            out.append(("entry", b.entry_type, b.key, tuple((f.key, f.value) for f in b.fields)))
        elif isinstance(b, String):
            out.append(("string", b.key, b.value))
        elif isinstance(b, Preamble):
            out.append(("preamble", b.value))
        elif isinstance(b, ExplicitComment):
            out.append(("ecomment", b.comment))
        elif isinstance(b, ImplicitComment):
            out.append(("icomment", b.comment))
        else:
            out.append(("?", type(b).__name__))
    return out


def expected_content(expected, raw_preamble):
    """content(parse_string(text)) predicted from the derivation alone (C02 + C11 + C10 rules)."""
    defs = {}
    for e in expected:
        if e["kind"] == "string" and e["key"] not in defs:
            defs[e["key"]] = e["value"]
    out = []
    pre = iter(raw_preamble)
    for e in expected:
        k = e["kind"]
        if k == "entry":
            fs = []
            for f in e["fields"]:
                v = f["value"]
                fs.append((f["key"], strip1(defs[v]) if (IDENT.match(v) and v in defs) else strip1(v)))
            out.append(("entry", e["type"], e["key"], tuple(fs)))
        elif k == "string":
            out.append(("string", e["key"], strip1(e["value"])))
        elif k == "preamble":
            out.append(("preamble", next(pre)))
        elif k == "ecomment":
            out.append(("ecomment", e["comment"]))
        else:
            out.append(("icomment", e["comment"]))
    return out


def classes_of(deriv, fspec):
    feats = bibgen.features(deriv)
    if fspec:
        feats.add("non-default-format")
        if fspec.get("value_column") == "auto":
            feats.add("fmt:auto")
        if fspec.get("block_separator") == "":
            feats.add("fmt:empty-separator")
        if fspec.get("trailing_comma"):
            feats.add("fmt:trailing-comma")
    return feats


def _roundtrip(text, fspec, exp_content):
    fmt = libgen.build_format(fspec) if fspec is not None else None
    l1 = bibtexparser.parse_string(text)
    c1 = content(l1)
    if exp_content is not None and c1 != exp_content:
        return ("first-parse-content", repr(c1), repr(exp_content))
    t1 = bibtexparser.write_string(l1, bibtex_format=fmt)
    if content(l1) != c1:
        return ("write-changed-the-parsed-library", repr(content(l1)), repr(c1))
    l2 = bibtexparser.parse_string(t1)
    c2 = content(l2)
    if any(isinstance(b, ParsingFailedBlock) for b in l2.blocks):
        bad = [b for b in l2.blocks if isinstance(b, ParsingFailedBlock)][0]
        return ("reparse:failed-block", f"written text {t1!r} re-parses with a failed block {bad.raw!r}", "no failed block")
    if c2 != c1:
        i = next((k for k, (a, b) in enumerate(zip(c1, c2)) if a != b), min(len(c1), len(c2)))
        kind = (c1[i][0] if i < len(c1) else "extra-block")
        return (f"content-changed:{kind}", f"written {t1!r} -> block {i}: {c2[i] if i < len(c2) else None!r}", repr(c1[i] if i < len(c1) else None))
    t2 = bibtexparser.write_string(l2, bibtex_format=fmt)
    if t2 != t1:
        return ("not-a-fixpoint", repr(t2), repr(t1))
    return None


def o_roundtrip(inp):
    """inp: {"deriv": derivation, "fmt": format spec | None}"""
    deriv, fspec = inp["deriv"], inp["fmt"]
    text, expected = bibgen.render(deriv)
    feats = classes_of(deriv, fspec)
    raw_pre = [it["body"] for it in deriv if it["k"] == "preamble"]
    f = _roundtrip(text, fspec, expected_content(expected, raw_pre))
    nontrivial = bool(feats & {"concatenation", "nested-braces", "multi-line-value", "quote-in-brace", "brace-in-quote"}) and fspec is not None
    return (f, nontrivial, sorted(feats))


def o_text(inp):
    """inp: {"text": text, "fmt": i}: frame enumeration; only texts accepted by the reference recogniser."""
    text = inp["text"]
    exp = refparse.parse_document(text)
    if exp is None:
        return (None, False, ("rejected-by-recogniser",))
    keys = [e["key"] for e in exp if e["kind"] == "entry"]
    if len(set(keys)) < len(keys):
        return (None, False, ("duplicate-keys",))
    f = _roundtrip(text, FORMATS_E[inp["fmt"]], None)
    return (f, True, ("accepted", "format%d" % inp["fmt"]))


SUBS = {"roundtrip": o_roundtrip, "text": o_text}

FRAMES = {"F1": ("@a{k, f = ", ", g = {z}}\n"), "F2": ("@string{s = ", "}\n@a{k, h = s}"), "F3": ("@comment{", "}\n@a{k}"), "F5": ("@preamble{", "} x @b{j,}")}


def w_frames(acc, frame, L, prefix):
    pre, post = FRAMES[frame]
    for t in tokens.seqs(tokens.SIGMA_F, L, prefix):
        text = pre + "".join(t) + post
        if refparse.parse_document(text) is None:
            acc.record("text", None, (None, False, ("rejected-by-recogniser",)))
            continue
        for fi in range(len(FORMATS_E)):
            acc.run("text", o_text, {"text": text, "fmt": fi}, True)


def w_large(acc, n):
    for fi in (0, 2, 3):
        acc.run("roundtrip", o_roundtrip, {"deriv": bibgen.large_document(n, ref="s0"), "fmt": FORMATS_E[fi]}, True)
    acc.classes["large-document"] += 1


def st_format_c05():
    from hypothesis import strategies as st

    return st.one_of(
        st.none(),
        st.fixed_dictionaries({
            "indent": st.text(alphabet=" \t", max_size=8),
            "value_column": st.one_of(st.integers(0, 40), st.just("auto")),
            "trailing_comma": st.booleans(),
            "block_separator": st.sampled_from(SEPARATORS),
        }),
    )


def w_random(acc, n, seed):
    from hypothesis import strategies as st

    from .C11 import SKEYS, VALUE_POOL, gen_refdoc

    plain = st.fixed_dictionaries({"deriv": bibgen.strategies(), "fmt": st_format_c05()})
    harness.run_hyp(acc, "roundtrip", o_roundtrip, plain, n, seed)
    refs = st.fixed_dictionaries({"deriv": st.lists(st.integers(0, 255), min_size=20, max_size=200).map(_unique_strings), "fmt": st_format_c05()})
    harness.run_hyp(acc, "roundtrip", o_roundtrip, refs, n // 3, seed + 1)


def _unique_strings(ints):
    """Reference-dense documents (C11's generator) with unique @string keys (duplicates would be failed blocks)."""
    from .C11 import gen_refdoc

    d = gen_refdoc(ints)
    seen = set()
    out = []
    skip_gap = False
    for it in d:
        if skip_gap and it["k"] == "gap":
            skip_gap = False
            continue
        if it["k"] == "string":
            if it["key"] in seen:
                skip_gap = True
                continue
            seen.add(it["key"])
        out.append(it)
    # dropping an item may have made two free-text items adjacent: merge guard
    res = []
    for it in out:
        if it["k"] == "text" and any(x["k"] == "text" for x in res[-2:]):
            continue
        res.append(it)
    return res


def run(chk):
    quick = chk.tier == "quick"
    L = 4 if quick else 5
    tasks = []
    for fr in FRAMES:
        tasks += [("w_frames", (fr,) + t) for t in tokens.seq_tasks(tokens.SIGMA_F, L, prefix_len=1)]
    tasks += [("w_large", (n,)) for n in (130, 300, 1100)]
    n_rand = 24000 if quick else 400000
    shards = 16 if quick else 64
    for s in range(shards):
        tasks.append(("w_random", (n_rand // shards, harness.seed_for(chk.seed, PROP, s))))
    harness.pmap(chk.acc, MODNAME, tasks)
    chk.acc.exhaustive["frames"] = f"every sequence of <= {L} tokens of {tokens.SIGMA_F!r} inside the frames {FRAMES!r} accepted by the reference recogniser x 6 formats"
    chk.rule = (
        "cases = (grammar derivation with unique keys, BibtexFormat). Engine R: Hypothesis derivations (all block kinds, "
        "nested braces, quoted values, concatenations, numbers, free text) and reference-dense documents (resolved / "
        "unresolved / later-defined @string references) x formats (indent [ \\t]{0,8}, value_column 0..40 / 'auto', trailing "
        "comma, whitespace-only separators incl. '' and CRLF); engine E: recogniser-accepted frame texts x 6 formats. Oracle: "
        "L1 = parse(s), T1 = write(L1, F), L2 = parse(T1), T2 = write(L2, F): content(L1) == content predicted from the "
        "derivation, content(L2) == content(L1) (types, keys, field order, values, comment / preamble / string text), no failed "
        "block in L2, T2 == T1 byte for byte. Non-trivial: a concatenation, nested brace, quote/brace interplay or multi-line "
        "value under a non-default format (R); every accepted frame text (E)."
    )
    chk.required_classes = ["accepted", "concatenation", "nested-braces", "multi-line-value", "non-default-format", "fmt:auto", "fmt:empty-separator", "free-text"]
