"""C12 - co-author splitting loses nothing and splits only at top-level ' and '."""
import re

from bibtexparser.library import Library
from bibtexparser.middlewares.names import MergeCoAuthors, SeparateCoAuthors, split_multiple_persons_names
from bibtexparser.model import Entry, Field

from .. import harness, libgen, refnames, tokens
from ..compare import canon

PROP = "C12"
MODNAME = __name__

WS = "[ \\t\\r\\n]"
GAP = f"{WS}+[aA][nN][dD]{WS}+"


def classes_of(s):
    low = s.lower()
    out = []
    if "and" in low:
        out.append("has-and")
    if re.search(r"[ \t\n]and[ \t\n]+\\", low):
        out.append("escape-after-separator")
    if re.search(r"\{[^}]*and", low):
        out.append("and-in-braces")
    if "~and" in low or "and~" in low:
        out.append("tie-and")
    st = low.strip(" \t\r\n")
    if st.startswith("and") or st.endswith("and"):
        out.append("leading/trailing-and")
    if re.search(r"and[ \t\n]+and", low):
        out.append("and-and")
    if "\\" in s:
        out.append("backslash")
    if not refnames.brace_balanced(s):
        out.append("unbalanced")
    return out


GAP_RE = re.compile(GAP)
WS_RE = re.compile(f"{WS}*")


def _conserved(s, pieces):
    """pieces are contiguous slices of s in order, separated exactly by whitespace-and-whitespace,
    with only whitespace before the first and after the last."""
    # fast path without building a regex per case
    pos = WS_RE.match(s, 0).end()
    ok = True
    for i, p in enumerate(pieces):
        if i:
            m = GAP_RE.match(s, pos)
            if not m:
                ok = False
                break
            pos = m.end()
        if not s.startswith(p, pos):
            ok = False
            break
        pos += len(p)
    if ok and WS_RE.match(s, pos).end() == len(s):
        return True
    # general case (pieces that begin or end with whitespace make the greedy walk ambiguous)
    pat = f"{WS}*" + GAP.join(re.escape(p) for p in pieces) + f"{WS}*"
    return bool(re.fullmatch(pat, s, re.DOTALL))


def o_split(s):
    pieces = split_multiple_persons_names(s)
    cls = classes_of(s)
    nontrivial = "has-and" in cls
    if not isinstance(pieces, list) or not all(isinstance(p, str) for p in pieces):
        return (("type", repr(pieces), "list of str"), nontrivial, cls)
    # 1. conservation
    for p in pieces:
        if not p.strip(" \t\r\n"):
            return (("conservation:empty-piece", repr(pieces), "every piece contains a name"), nontrivial, cls)
    if not _conserved(s, pieces):
        return (("conservation", repr(pieces), f"contiguous pieces of {s!r} separated exactly by whitespace-and-whitespace"), nontrivial, cls)
    # 2. idempotence
    again = split_multiple_persons_names(" and ".join(pieces))
    if again != pieces:
        return (("idempotence", repr(again), repr(pieces)), nontrivial, cls)
    # 3. exact rule on brace-balanced input
    if "unbalanced" not in cls:
        exp = refnames.split_names(s)
        if pieces != exp:
            return (("exact-rule", repr(pieces), repr(exp)), nontrivial, cls)
    # history independence: the list handed out belongs to the caller
    snapshot = list(pieces)
    pieces.append("<altered by caller>")
    if pieces[:-1]:
        pieces[0] = "<altered>"
    again = split_multiple_persons_names(s)
    if again is pieces or again != snapshot:
        return (("result-shared-between-calls", repr(again), repr(snapshot)), nontrivial, cls)
    return (None, nontrivial, cls)


def o_middleware(inp):
    """inp: {"fields": [[key, value]], "name_fields": [..] or None, "inplace": bool}"""
    fields = [Field(k, v, i) for i, (k, v) in enumerate(inp["fields"])]
    entry = Entry("article", "k", fields, start_line=0, raw="raw")
    lib = Library([entry])
    kw = {"allow_inplace_modification": inp["inplace"]}
    nf = ("author", "editor", "translator")
    if inp.get("name_fields") is not None:
        kw["name_fields"] = tuple(inp["name_fields"])
        nf = kw["name_fields"]
    out = libgen.maybe_preuse(libgen.construct(SeparateCoAuthors, kw, inp["fields"]), inp["fields"], same=lib).transform(lib)
    e = out.blocks[0]
    cls = ["mw-custom-fields" if inp.get("name_fields") is not None else "mw-default-fields"]
    nontrivial = any(k in nf and "and" in v.lower() for k, v in inp["fields"])
    if not isinstance(e, Entry) or [f.key for f in e.fields] != [k for k, _ in inp["fields"]]:
        return (("mw:shape", repr(e), "entry with the same field keys"), nontrivial, cls)
    for f, (k, v) in zip(e.fields, inp["fields"]):
        exp = split_multiple_persons_names(v) if k in nf else v
        if f.value != exp or type(f.value) is not type(exp):
            return ((f"mw:separate:{'name' if k in nf else 'other'}-field", repr(f.value), repr(exp)), nontrivial, cls)
    merged = libgen.maybe_preuse(libgen.construct(MergeCoAuthors, kw, inp["fields"]), inp["fields"]).transform(out)
    e2 = merged.blocks[0]
    for f, (k, v) in zip(e2.fields, inp["fields"]):
        exp = " and ".join(split_multiple_persons_names(v)) if k in nf else v
        if f.value != exp:
            return (("mw:merge", repr(f.value), repr(exp)), nontrivial, cls)
    return (None, nontrivial, cls)


SUBS = {"split": o_split, "middleware": o_middleware}


def w_enum(acc, L, prefix):
    it = ("".join(t) for t in tokens.seqs(tokens.SIGMA_A, L, prefix, tokens.SIGMA_A_SKIP))
    harness.run_cases(acc, "split", o_split, it, distinct_by_construction=True)


FRAMES = ["x and {%s and y} and z", "x and %s and z", "{%s} and z", "%s and {y and z}", "Ab~%s and y", "x\r\nand\r%s and z", "x\xa0and %s\xa0and\xa0z"]


def w_frames(acc, L, prefix):
    for t in tokens.seqs(tokens.SIGMA_A, L, prefix, tokens.SIGMA_A_SKIP):
        mid = "".join(t)
        for fr in FRAMES:
            acc.run("split", o_split, fr % mid, True)


def w_large(acc, n):
    names = ["Name%d von Last%d, Jr, {First and %d}" % (i, i, i) if i % 3 else "\\'E%d~Knuth" % i for i in range(n)]
    for sep in (" and ", "\nAND\t", "  and\r\n"):
        acc.run("split", o_split, sep.join(names), True)
    acc.run("split", o_split, " and ".join(["and"] * n), True)
    acc.run("split", o_split, "{" * n + "a and b" + "}" * n + " and c", True)
    acc.classes["large-list"] += 1


def w_after_name_parsing(acc, L, prefix):
    """The splitter must not depend on what was called before it: same frame enumeration, interleaved with
    calls to the name-part parser and the name middlewares (which live in the same module)."""
    from bibtexparser.middlewares.names import parse_single_name_into_parts

    for k, t in enumerate(tokens.seqs(tokens.SIGMA_A, L, prefix, tokens.SIGMA_A_SKIP)):
        mid = "".join(t)
        if k % 7 == 0:
            try:
                parse_single_name_into_parts("von~Last, Jr, " + mid.replace("{", "").replace("}", ""), strict=False)
            except Exception:
                pass
        for fr in FRAMES[1::2]:
            acc.run("split", o_split, fr % mid, True)
    acc.classes["interleaved-with-name-parsing"] += 1


def _strategies():
    from hypothesis import strategies as st

    word = st.one_of(
        st.sampled_from(["Ab", "Knuth", "von", "de", "la", "{Simon and Schuster}", "{and}", "M.", "Jr", "\\'Etienne",
                         "Vign{\\'e}", "and", "And", "AND", "aNd", "an", "d", "band", "andy", "Anders", "{x{y}z}", "a\\nd",
                         "\\and", "and\\", "~", "x~and~y", "é", "ß", "A-B", "O'Neil", "\\ ", "\\\\",
                         "\xa0and\xa0", "x\xa0y", "a\x0band", "\u2003and\u2003", "AND", "ａｎｄ", "ÀND", "and\x0c"]),
        st.text(alphabet="abAB.-'", min_size=1, max_size=5),
    )
    sep_in_name = st.sampled_from([" ", " ", " ", ", ", "~", "  ", "\t", "\n", "\r\n", "\r", "\xa0"])

    @st.composite
    def name(draw):
        n = draw(st.integers(1, 4))
        ws = [draw(word) for _ in range(n)]
        out = ws[0]
        for w in ws[1:]:
            out += draw(sep_in_name) + w
        return out

    and_tok = st.sampled_from([" and ", " and ", " AND ", " And ", "  and\t", "\nand\n", " and  ", " aNd ", "\r\nand\r\n", " and\r", "\xa0and ", " and\xa0", "\x0band "])
    noise = st.sampled_from(tokens.SIGMA_A)

    @st.composite
    def author_list(draw):
        n = draw(st.integers(1, 40 if draw(st.integers(0, 9)) == 0 else 6))
        s = draw(name())
        for _ in range(n - 1):
            s += draw(and_tok) + draw(name())
        k = draw(st.integers(0, 3))
        for _ in range(k):
            pos = draw(st.integers(0, len(s)))
            s = s[:pos] + draw(noise) + s[pos:]
        if draw(st.integers(0, 5)) == 0:
            s = draw(st.sampled_from([" ", "\n", "\t "])) + s + draw(st.sampled_from([" ", "\n", ""]))
        return s

    keys = st.sampled_from(["author", "editor", "translator", "title", "Author", "note", "authors", "bookauthor"])
    mw = st.fixed_dictionaries(
        {
            "fields": st.one_of(st.lists(st.tuples(keys, author_list()), min_size=1, max_size=5, unique_by=lambda kv: kv[0]),
                                st.lists(st.tuples(st.sampled_from(["author", "editor", "title"]), author_list()), min_size=2, max_size=4)).map(lambda l: [list(x) for x in l]),
            "name_fields": st.one_of(st.none(), st.lists(keys, max_size=3, unique=True)),
            "inplace": st.booleans(),
        }
    )
    return author_list(), mw


def w_random(acc, n, seed):
    al, mw = _strategies()
    harness.run_hyp(acc, "split", o_split, al, n, seed)
    harness.run_hyp(acc, "middleware", o_middleware, mw, max(50, n // 5), seed)


def w_fuzz(acc, runs, seed):
    """Coverage-guided engine: names.py is a character-level state machine in pure Python, so libFuzzer's coverage
    feedback applies; the oracle (reference differential + invariants) runs inside the target."""
    from .. import fuzzrun

    fuzzrun.run_atheris(acc, "C12", "split", o_split, runs, seed, tokens.SIGMA_A, ["Donald E. Knuth and Leslie Lamport", "{Simon and Schuster} and A~B", "a and b \\\\ and c"], max_len=64)


def run(chk):
    bad = refnames.validate_on_corpus()
    if bad:
        raise harness.HarnessError(f"reference implementations disagree with the repository's BibTeX corpus: {bad[:3]}")
    quick = chk.tier == "quick"
    max_len = 5 if quick else 6
    tasks = [("w_enum", t) for t in tokens.seq_tasks(tokens.SIGMA_A, max_len)]
    tasks += [("w_large", (n,)) for n in (130, 300, 1100, 4200)]
    frame_len = 3 if quick else 4
    tasks += [("w_frames", t) for t in tokens.seq_tasks(tokens.SIGMA_A, frame_len, prefix_len=1)]
    tasks += [("w_after_name_parsing", t) for t in tokens.seq_tasks(tokens.SIGMA_A, frame_len, prefix_len=1)]
    n_rand = 12000 if quick else 400000
    shards = 8 if quick else 32
    for s in range(shards):
        tasks.append(("w_random", (n_rand // shards, harness.seed_for(chk.seed, PROP, s))))
    tasks.insert(0, ("w_fuzz", (100000 if quick else 3000000, chk.seed)))
    harness.pmap(chk.acc, MODNAME, tasks)
    chk.acc.exhaustive["and-tokens"] = (
        f"every sequence of length <= {max_len} over the 16-token alphabet {tokens.SIGMA_A!r} "
        f"(sequences with an adjacent token pair in {sorted(tokens.SIGMA_A_SKIP)!r} are skipped because they spell "
        f"the same string as a shorter sequence): {tokens.count_seqs(tokens.SIGMA_A, max_len)} sequences before skipping"
    )
    chk.acc.exhaustive["and-frames"] = f"every token sequence of length <= {frame_len} placed in each of the frames {FRAMES!r}"
    chk.rule = (
        "inputs = strings. Engine E: every token sequence up to the bound (distinct strings by construction); engine R: "
        "Hypothesis author lists of 1-40 names with random separators/case/noise tokens, and entries for the "
        "middleware level. Oracle: conservation (regex over the input), idempotence, and equality with the independent "
        "word-based reference splitter on brace-balanced input (reference validated on the 44 BibTeX-derived corpus "
        "cases first). Non-trivial: the input contains 'and' in any letter case (glued or not, any depth)."
    )
    chk.required_classes = ["has-and", "escape-after-separator", "and-in-braces", "tie-and", "leading/trailing-and", "and-and", "unbalanced", "interleaved-with-name-parsing"]
    chk.assumptions = ["the exact separator rule is asserted on brace-balanced strings only (as the property states); conservation and idempotence on every string"]
