"""C18 - LaTeX en/decoding touches only text values, round-trips, and contains errors."""
import itertools
import re

from bibtexparser.library import Library
from bibtexparser.middlewares.names import NameParts
from bibtexparser.model import Entry, MiddlewareErrorBlock, ParsingFailedBlock, String

from .. import harness, libgen
from ..compare import canon

PROP = "C18"
MODNAME = __name__

# The alphabet of the property's quantifier, fixed in advance (DESIGN.md C18).
NON_INJECTIVE = set("ĦħĸĿŀŉŦŧŰű")
ASCII_CHARS = [chr(c) for c in range(32, 127) if chr(c) not in '"^']
LATIN = [chr(c) for c in range(0xC0, 0x180) if chr(c).isalpha() and chr(c) not in NON_INJECTIVE]
CHARS = ASCII_CHARS + ["\t", "\n", "\xa0"] + LATIN  # blanks: space, tab, newline and the no-break space (TeX's tie)
LIGATURES = {"--", "``", "''", "!`", "?`"}
SAFE_URLS = ["http://example.org/a_b", "https://example.org/path/to-page.html", "www.example.com/index", "http://a.b/c?d=e#frag"]
URL_THEN_NBSP = [u + "\xa0R&D 100% {x} ~" for u in ("http://example.org/a.html", "www.example.com/index")]
RISKY_URLS = ["https://a.b/c?d=e&f=g", "www.example.com/~user", "http://a.b/c%20d", "http://a.b/{x}", "http://a.b/x$y"]
MATH = ["$x_1$", "$\\alpha + \\beta$", "$a < b$", "$\\frac{a}{b}$", "$E = mc_2$", "$x$", "$a\\$b$", "$\\{x\\}$"]
URL_RE = re.compile(r"https?://\S*\.\S*|www.\S*\.\S*")
OPTION_SETS = {
    "default": ({"mw": "LatexEncoding"}, {"mw": "LatexDecoding"}),
    "no-math": ({"mw": "LatexEncoding", "keep_math": False}, {"mw": "LatexDecoding", "keep_math_mode": False}),
    "no-urls": ({"mw": "LatexEncoding", "enclose_urls": False}, {"mw": "LatexDecoding"}),
}


def join_tokens(toks):
    """Concatenate tokens; a token that would create a ligature sequence is separated by a letter."""
    out = ""
    for t in toks:
        if out and t and (out[-1] + t[0]) in LIGATURES:
            out += "x"
        if (t in SAFE_URLS or t in RISKY_URLS) and out and not out[-1].isspace():
            out += " "
        out += t
        if t in SAFE_URLS or t in RISKY_URLS:
            out += " "
    return out


def unescaped_dollars(t):
    return len(re.findall(r"(?<!\\)\$", t))


def text_classes(t):
    cls = []
    if any(ord(c) > 127 for c in t):
        cls.append("non-ascii")
    if any(c in t for c in "\\{}%&#_~$"):
        cls.append("tex-special")
    if URL_RE.search(t):
        cls.append("url")
    if unescaped_dollars(t) >= 2:
        cls.append("math")
    return cls


def _apply(specs, lib, inplace):
    for s in specs:
        lib = libgen.maybe_preuse(libgen.make_middleware(s, inplace=inplace), (s, len(lib.blocks)), same=lib).transform(lib)
    return lib


def o_roundtrip(inp):
    """inp: {"text": t, "where": "field"|"string"|"nameparts", "opts": option set name}"""
    t, where = inp["text"], inp["where"]
    enc, dec = OPTION_SETS[inp["opts"]]
    if where == "field":
        # the conversion is a function of the value, whatever the field is called
        lib = Library([Entry("article", "k", [libgen.Field(inp.get("key", "title"), t, 1)], 0, "raw")])
    elif where == "string":
        lib = Library([String("s", t, 0, "raw")])
    else:
        lib = Library([Entry("article", "k", [libgen.Field("author", NameParts(first=[t], von=[], last=["L", t], jr=[]), 1)], 0, "raw")])
    cls = text_classes(t) + ["where:" + where, "opts:" + inp["opts"]]
    nontrivial = bool(set(cls) & {"non-ascii", "tex-special", "url", "math"})
    out = _apply([enc, dec], lib, False)
    b = out.blocks[0]
    if where == "field":
        got = b.fields[0].value if isinstance(b, Entry) else b
    elif where == "string":
        got = b.value if isinstance(b, String) else b
    else:
        v = b.fields[0].value if isinstance(b, Entry) else None
        if not isinstance(v, NameParts) or v.first != [t] or v.last != ["L", t] or v.von != [] or v.jr != []:
            return ((f"roundtrip:nameparts:{inp['opts']}", repr(v), repr(NameParts(first=[t], last=["L", t]))), nontrivial, cls)
        return (None, nontrivial, cls)
    if got != t:
        mid = _apply([enc], lib, False).blocks[0]
        midv = mid.fields[0].value if isinstance(mid, Entry) else getattr(mid, "value", mid)
        return ((f"roundtrip:{where}:{inp['opts']}", f"{t!r} -> {midv!r} -> {got!r}", repr(t)), nontrivial, cls)
    return (None, nontrivial, cls)


def _balanced(t):
    d = 0
    for i, c in enumerate(t):
        if i and t[i - 1] == "\\":
            continue
        if c == "{":
            d += 1
        elif c == "}":
            d -= 1
            if d < 0:
                return False
    return d == 0


def kf_many_dollars(sub, inp, fail):
    """F-11b: under keep_math the encoder keeps everything from the first to the last unescaped dollar verbatim.
    That span is not something the decoder reads back unchanged when there are >= 3 unescaped dollars (text
    between two math spans, '$$'), or when the text between two dollars contains a '%' or unbalanced braces
    (two prices: 'costs $5 (50% off) or $6'; '${$')."""
    if sub != "roundtrip" or not fail[0].startswith("roundtrip:") or inp["opts"] == "no-math":
        return False
    t = inp["text"]
    # a dollar is escaped iff an odd number of backslashes stands before it ('\\\\$' is a line break followed by a live dollar)
    pos = [m.end() - 1 for m in re.finditer(r"(?<!\\)(?:\\\\)*\$", t)]
    if len(pos) >= 3:
        return True
    if len(pos) == 2:
        span = t[pos[0] + 1 : pos[1]]
        return "%" in span or not _balanced(span)
    return False


def kf_url_with_specials(sub, inp, fail):
    """F-21: a URL (as matched by the encoder's URL rule) containing one of $ % & \\ { } ~ under enclose_urls."""
    if sub != "roundtrip" or not fail[0].startswith("roundtrip:") or inp["opts"] == "no-urls":
        return False
    return any(any(c in m.group(0) for c in "$%&\\{}~") for m in URL_RE.finditer(inp["text"]))


def _shape(lib):
    """Everything that must be untouched: per block (class, key, type, field keys, raw, start line) and every non-text value."""
    out = []
    for b in lib.blocks:
        if isinstance(b, ParsingFailedBlock) and not isinstance(b, MiddlewareErrorBlock):
            out.append(("failed", canon(b, ignore=("_error", "_previous_block"))))
        elif isinstance(b, Entry):
            fs = []
            for f in b.fields:
                v = f.value
                if isinstance(v, str):
                    fs.append((f.key, "str", f.start_line))
                elif isinstance(v, NameParts):
                    fs.append((f.key, "NameParts", tuple(len(getattr(v, p)) for p in ("first", "von", "last", "jr")), f.start_line))
                else:
                    fs.append((f.key, canon(v), f.start_line))
            out.append(("Entry", b.entry_type, b.key, tuple(fs), b.raw, b.start_line))
        elif isinstance(b, String):
            out.append(("String", b.key, b.raw, b.start_line))
        else:
            out.append(canon(b))
    return out


def o_scope(inp):
    """inp: {"lib": [block specs with typed values], "seq": [middleware specs], "inplace": bool}; checked stage by stage."""
    lib = libgen.build_library(inp["lib"])
    custom_any = any(s.get("custom") for s in inp["seq"])
    cls = ["custom-converter" if custom_any else "shipped-converter", "inplace" if inp["inplace"] else "copy"]
    for spec in inp["seq"]:
        f = _scope_stage(lib, spec, inp["inplace"], cls)
        if isinstance(f, tuple):
            return (f, True, cls)
        lib = f
    return (None, True, cls)


def _text_values(b):
    vals = []
    for f in b.fields:
        if isinstance(f.value, str):
            vals.append(f.value)
        elif isinstance(f.value, NameParts):
            vals += f.value.first + f.value.von + f.value.last + f.value.jr
    return vals


def _scope_stage(lib, spec, inplace, cls):
    """Apply one stage; returns the output library or a failure triple."""
    shape0 = _shape(lib)
    custom = bool(spec.get("custom"))
    before = []
    for b in lib.blocks:
        if isinstance(b, Entry):
            before.append(("entry", b.entry_type, b.key, [(f.key, f.value if isinstance(f.value, str) else None) for f in b.fields], any(libgen.MARKER in v for v in _text_values(b))))
        elif isinstance(b, String):
            before.append(("string", type(b.value), isinstance(b.value, str) and libgen.MARKER in b.value))
        elif isinstance(b, MiddlewareErrorBlock):
            before.append(("mwerror",))
        else:
            before.append(("other",))
    out = libgen.maybe_preuse(libgen.make_middleware(spec, inplace=inplace), (spec, len(lib.blocks)), same=lib).transform(lib)
    if len(out.blocks) != len(shape0):
        return ("scope:block-count", f"{len(out.blocks)} blocks", f"{len(shape0)} blocks")
    for i, b in enumerate(out.blocks):
        src = before[i]
        if src[0] == "entry" and src[4] and custom:
            cls.append("error-contained")
            if not isinstance(b, MiddlewareErrorBlock):
                return ("error:not-contained", f"block {i}: {type(b).__name__}", "MiddlewareErrorBlock")
            inner = b.ignore_error_block
            if not isinstance(inner, Entry) or inner.entry_type != src[1] or inner.key != src[2] or [f.key for f in inner.fields] != [k for k, _ in src[3]]:
                return ("error:inner-entry", repr(inner), "the original entry (type, key, field keys)")
            for f, (k, v) in zip(inner.fields, src[3]):
                if v is not None and libgen.MARKER in v and f.value != v:
                    return ("error:failing-value-altered", repr(f.value), repr(v))
            continue
        if isinstance(b, MiddlewareErrorBlock) and src[0] != "mwerror":
            if src[0] == "string" and custom and src[2]:
                continue  # a failing @string conversion: containment form not specified by the statement
            return ("scope:unexpected-error-block", f"block {i} became MiddlewareErrorBlock: {b.error}", "unaffected block stays as it is")
        one = _shape(_FakeLib([b]))
        if one[0] != shape0[i]:
            return ("scope:changed", repr(one[0]), repr(shape0[i]))
        if isinstance(b, String) and not isinstance(b.value, src[1]):
            return ("scope:string-value-type", f"String.value is {type(b.value).__name__}: {b.value!r}", src[1].__name__)
        if isinstance(b, Entry):
            for f in b.fields:
                if isinstance(f.value, NameParts):
                    for p in ("first", "von", "last", "jr"):
                        part = getattr(f.value, p)
                        if not isinstance(part, list) or not all(isinstance(x, str) for x in part):
                            return ("scope:nameparts-type", repr(f.value), "lists of str")
    return out


class _FakeLib:
    def __init__(self, blocks):
        self.blocks = blocks


# values on which the third-party decoder itself gives up (a macro without its arguments): a conversion failure of the
# shipped default decoder, not of a custom one
NATURAL_FAILURES = ["\\href{u}{t}", "x \\input", "see \\verb", "a \\footnote", "\\sqrt", "\\textcolor{red}", "ok \\href{http://a.b}", "\\frac{1}", "\\begin{x}", "plain"]


def o_natural(inp):
    """inp: {"value": v, "where": "field"|"nameparts", "opts": {decoder options}, "inplace": bool}: whatever the decoder
    makes of the value, the middleware returns - an Entry with string values, or an error block holding the original entry."""
    from bibtexparser.middlewares import LatexDecodingMiddleware

    v = inp["value"]
    val = v if inp["where"] == "field" else NameParts(first=["A"], von=[], last=[v], jr=[])
    fine = Entry("book", "fine", [libgen.Field("title", "Caf\\'e", 5)], 4, "@book{fine}")
    lib = Library([Entry("article", "k", [libgen.Field("note", "n\\'e", 1), libgen.Field("author" if inp["where"] != "field" else "title", val, 2)], 0, "@article{k}"), fine])
    mw = libgen.construct(LatexDecodingMiddleware, dict(inp["opts"], allow_inplace_modification=inp["inplace"]), (v, inp["where"]))
    out = mw.transform(lib)  # an exception here is the violation (turned into a failure by the harness)
    cls = ["natural-decoder-input"]
    if len(out.blocks) != 2:
        return (("natural:block-count", f"{len(out.blocks)} blocks", "2 blocks"), True, cls)
    b, other = out.blocks
    if not isinstance(other, Entry) or other.fields[0].value != "Café":
        return (("natural:neighbour", repr(other), "the other entry decoded as usual"), True, cls)
    if isinstance(b, MiddlewareErrorBlock):
        cls.append("natural-failure-contained")
        inner = b.ignore_error_block
        if not isinstance(inner, Entry) or inner.key != "k" or [f.key for f in inner.fields] != ["note", "author" if inp["where"] != "field" else "title"]:
            return (("natural:inner-entry", repr(inner), "the original entry"), True, cls)
        got = inner.fields[1].value
        if (inp["where"] == "field" and got != v) or (inp["where"] != "field" and (not isinstance(got, NameParts) or got.last != [v])):
            return (("natural:failing-value-altered", repr(got), repr(val)), True, cls)
        return (None, True, cls)
    if not isinstance(b, Entry) or [f.key for f in b.fields] != ["note", "author" if inp["where"] != "field" else "title"]:
        return (("natural:entry-shape", repr(b), "Entry with the same fields or an error block"), True, cls)
    got = b.fields[1].value
    if inp["where"] == "field" and not isinstance(got, str):
        return (("natural:type", repr(got), "str"), True, cls)
    if inp["where"] != "field" and (not isinstance(got, NameParts) or not all(isinstance(x, str) for x in got.last)):
        return (("natural:type", repr(got), "NameParts of str"), True, cls)
    return (None, v != "plain", cls)


SUBS = {"roundtrip": o_roundtrip, "scope": o_scope, "natural": o_natural}


def w_pairs(acc, lo, hi):
    for a in CHARS[lo:hi]:
        acc.run("roundtrip", o_roundtrip, {"text": "x" + a + "y", "where": "string", "opts": "default"}, True)
        acc.run("roundtrip", o_roundtrip, {"text": a, "where": "nameparts", "opts": "default"}, True)
        for b in CHARS:
            if a + b in LIGATURES:
                continue
            acc.run("roundtrip", o_roundtrip, {"text": a + b, "where": "field", "opts": "default"}, True)


def w_atoms(acc):
    pre = ["", "see ", "é ", "100\\% of ", "{a} "]
    post = ["", " now", " ü.", " \\& co"]
    for atom, p, q, where, opts in itertools.product(SAFE_URLS + MATH, pre, post, ("field", "string", "nameparts"), OPTION_SETS):
        t = p + atom + q
        if where == "nameparts" and atom in MATH:
            continue
        acc.run("roundtrip", o_roundtrip, {"text": t, "where": where, "opts": opts}, True)
    for atom, p, q, opts in itertools.product(URL_THEN_NBSP, pre, post, OPTION_SETS):
        acc.run("roundtrip", o_roundtrip, {"text": p + atom + q, "where": "field", "opts": opts}, True)
    # identifier-like values under the field keys that usually carry them
    ids = ["10.1002/(SICI)1097-4636(199823)40:1%3C139::AID-JBM16%3E3.0.CO;2-K", "10.1000/a_b&c~d", "10.1234/x{y}z", "10.5555/12345678", "978-3-16-148410-0", "arXiv:hep-th/9901001", "10.1/50%", "jan", "12--15"]
    for t, key, opts in itertools.product(ids, ["doi", "DOI", "url", "isbn", "eprint", "note", "month", "pages", "crossref"], OPTION_SETS):
        if "--" in t:
            continue  # ligature sequence: outside the quantifier
        acc.run("roundtrip", o_roundtrip, {"text": t, "where": "field", "opts": opts, "key": key}, True)
    for atom, p, opts in itertools.product(RISKY_URLS + ["$x$ 5% $y$", "$a$ and $b$ \\& c", "$a$ $b$ $c$"], pre, OPTION_SETS):
        acc.run("roundtrip", o_roundtrip, {"text": p + atom + " end", "where": "field", "opts": opts}, True)


def w_natural(acc):
    for v, where, opts, inplace in itertools.product(NATURAL_FAILURES, ("field", "nameparts"), ({}, {"keep_braced_groups": True}, {"keep_math_mode": False}, {"keep_braced_groups": False, "keep_math_mode": True}), (True, False)):
        acc.run("natural", o_natural, {"value": v, "where": where, "opts": opts, "inplace": inplace}, True)


def _scope_specs():
    enc = [{"mw": "LatexEncoding"}, {"mw": "LatexEncoding", "keep_math": False}, {"mw": "LatexEncoding", "enclose_urls": False}, {"mw": "LatexEncoding", "custom": True}]
    dec = [{"mw": "LatexDecoding"}, {"mw": "LatexDecoding", "keep_braced_groups": True}, {"mw": "LatexDecoding", "keep_math_mode": False}, {"mw": "LatexDecoding", "custom": True}]
    seqs = [[e] for e in enc] + [[d] for d in dec] + [[e, d] for e in enc for d in dec] + [[d, e] for e in enc[:1] for d in dec[:2]]
    return seqs


def st_typed_library():
    from hypothesis import strategies as st

    tok = st.one_of(st.sampled_from(CHARS), st.sampled_from(CHARS[:60]), st.sampled_from(SAFE_URLS + MATH + [libgen.MARKER, "é", "\\'e", "{B}", "$"]))
    text = st.lists(tok, max_size=12).map(join_tokens)
    np = st.fixed_dictionaries({"np": st.fixed_dictionaries({"first": st.lists(text, max_size=2), "von": st.lists(text, max_size=1), "last": st.lists(text, min_size=1, max_size=2), "jr": st.lists(text, max_size=1)})})
    val = st.one_of(text, text, text, st.integers(0, 3000), st.lists(text, max_size=3), np, st.lists(np, max_size=2))
    key = st.sampled_from(["title", "author", "year", "note", "Title", "é"])
    # blocks and fields built by hand through the model classes have no start line
    line = st.one_of(st.integers(0, 30), st.integers(0, 30), st.none())
    entry = st.fixed_dictionaries({"t": st.just("entry"), "type": st.sampled_from(["article", "book"]), "key": st.text(alphabet="abc12", min_size=1, max_size=4),
                                   "fields": st.lists(st.tuples(key, val, line).map(list), max_size=5, unique_by=lambda f: f[0]), "line": line, "raw": text})
    string = st.fixed_dictionaries({"t": st.just("string"), "key": st.sampled_from(["s", "t", "jan"]), "value": text, "line": line, "raw": text})
    other = st.one_of(
        st.fixed_dictionaries({"t": st.just("preamble"), "value": text, "line": line, "raw": text}),
        st.fixed_dictionaries({"t": st.just("ecomment"), "comment": text, "line": line, "raw": text}),
        st.fixed_dictionaries({"t": st.just("icomment"), "comment": text, "line": line, "raw": text}),
        st.fixed_dictionaries({"t": st.just("failed"), "raw": text.map(lambda s: s or "r"), "line": line}),
        st.fixed_dictionaries({"t": st.just("dupfield"), "entry": entry, "keys": st.just(["a"])}),
    )
    return st.lists(st.one_of(entry, entry, string, other), max_size=6), text


def w_random(acc, n, seed):
    from hypothesis import strategies as st

    libs, text = st_typed_library()
    rt = st.fixed_dictionaries({"text": text, "where": st.sampled_from(["field", "string", "nameparts"]), "opts": st.sampled_from(sorted(OPTION_SETS))})
    harness.run_hyp(acc, "roundtrip", o_roundtrip, rt, n, seed)
    longer = st.lists(st.one_of(st.sampled_from(CHARS), st.sampled_from(SAFE_URLS + MATH + RISKY_URLS + URL_THEN_NBSP)), max_size=40).map(join_tokens)
    rt2 = st.fixed_dictionaries({"text": longer, "where": st.just("field"), "opts": st.sampled_from(sorted(OPTION_SETS))})
    harness.run_hyp(acc, "roundtrip", o_roundtrip, rt2, n // 2, seed + 1)
    ids = ["10.1002/(SICI)1097-4636(199823)40:1%3C139::AID-JBM16%3E3.0.CO;2-K", "10.1000/a_b&c~d", "10.1234/x{y}z", "10.5555/12345678", "978-3-16-148410-0", "arXiv:hep-th/9901001", "doi:10.1/%", "10.1/50%", "1234.5678v2 [cs.LG]"]
    rt3 = st.fixed_dictionaries({"text": st.one_of(st.sampled_from(ids), text), "where": st.just("field"), "opts": st.sampled_from(sorted(OPTION_SETS)),
                                 "key": st.sampled_from(["doi", "DOI", "url", "isbn", "eprint", "note", "file", "month", "crossref", "pages"])})
    harness.run_hyp(acc, "roundtrip", o_roundtrip, rt3, max(200, n // 4), seed + 2)
    sc = st.fixed_dictionaries({"lib": libs, "seq": st.sampled_from(_scope_specs()), "inplace": st.booleans()})
    harness.run_hyp(acc, "scope", o_scope, sc, n, seed)


def w_scope_grid(acc):
    np_ = {"np": {"first": ["Jos\\'e"], "von": ["de"], "last": ["L{\\\"o}pez"], "jr": []}}
    np2 = {"np": {"first": ["José " + libgen.MARKER], "von": [], "last": ["Núñez"], "jr": ["Jr"]}}
    lib = [
        {"t": "string", "key": "s", "value": "Caf\\'e é 100%", "line": 0, "raw": "@string{s = ...}"},
        {"t": "preamble", "value": "pré \\'e", "line": 1, "raw": "@preamble{...}"},
        {"t": "icomment", "comment": "% cómment \\'e", "line": 2, "raw": "% cómment"},
        {"t": "ecomment", "comment": "é \\'e", "line": 3, "raw": "@comment{é}"},
        {"t": "entry", "type": "article", "key": "é1", "fields": [["title", "Tïtle \\'e $x_1$ http://a.b/c", 5], ["year", 1999, 6], ["keywords", ["á", "\\'a"], 7], ["author", np_, 8], ["editor", [np_, np_], 9], ["é", "k\\'ey", 10]], "line": 4, "raw": "@article{é1, \\'e}"},
        {"t": "failed", "raw": "@bröken{ \\'e", "line": 11},
        {"t": "entry", "type": "book", "key": "b2", "fields": [["title", "bad " + libgen.MARKER + " é", 13], ["note", "fine é", 14]], "line": 12, "raw": "@book{b2}"},
        {"t": "entry", "type": "book", "key": "b3", "fields": [["author", np2, 16]], "line": 15, "raw": "@book{b3}"},
        {"t": "string", "key": "t", "value": "bad " + libgen.MARKER, "line": 17, "raw": "@string{t}"},
        # many strings in one entry: the one that cannot be converted is the 13th (fields and name parts count in field order)
        {"t": "entry", "type": "misc", "key": "b4", "fields": [["f%d" % i, "fine é %d" % i, 31 + i] for i in range(8)] + [["author", np_, 39]] + [["g%d" % i, "é", 40 + i] for i in range(3)] + [["last", "bad " + libgen.MARKER, 43], ["after", "é", 44]], "line": 30, "raw": "@misc{b4}"},
        {"t": "dupfield", "entry": {"type": "misc", "key": "d", "fields": [["a", "é", 19], ["a", "\\'e", 19]], "line": 18, "raw": "@misc{d}"}, "keys": ["a"]},
        {"t": "mwerror", "entry": {"type": "misc", "key": "m", "fields": [["a", "é", 21]], "line": 20, "raw": "@misc{m}"}, "err": "invalidname"},
    ]
    def by_hand(spec):
        """The same block as built through the model classes: no start lines, no raw text."""
        if isinstance(spec, dict):
            out = {k: by_hand(v) for k, v in spec.items()}
            if "line" in out:
                out["line"] = None
            if "raw" in out and out.get("t") != "failed":
                out["raw"] = None
            if "fields" in out:
                out["fields"] = [[f[0], f[1], None] for f in spec["fields"]]
            return out
        return spec

    hand = [by_hand(b) for b in lib if b["t"] not in ("dupfield", "mwerror")]
    for seq in _scope_specs():
        for inplace in (True, False):
            acc.run("scope", o_scope, {"lib": lib, "seq": seq, "inplace": inplace}, True)
            acc.run("scope", o_scope, {"lib": hand, "seq": seq, "inplace": inplace}, True)
            for k in range(len(lib)):
                acc.run("scope", o_scope, {"lib": [lib[k]], "seq": seq, "inplace": inplace}, True)


def run(chk):
    quick = chk.tier == "quick"
    tasks = [("w_atoms", ()), ("w_scope_grid", ()), ("w_natural", ())]
    for lo, hi in harness.chunks(len(CHARS), 30):
        tasks.append(("w_pairs", (lo, hi)))
    n_rand = 8000 if quick else 300000
    shards = 16 if quick else 64
    for s in range(shards):
        tasks.append(("w_random", (n_rand // shards, harness.seed_for(chk.seed, PROP, s))))
    harness.pmap(chk.acc, MODNAME, tasks)
    chk.acc.exhaustive["pairs"] = f"every 1- and 2-character string over the {len(CHARS)}-character alphabet (ASCII printable without '\"' and '^', tab, newline, Latin letters U+00C0-U+017F without the 10 letters the converter maps non-injectively) except the 5 ligature pairs"
    chk.acc.exhaustive["scope-grid"] = "a fixed library with every block kind and value type (str, int, list, NameParts, list of NameParts, raising markers) and each of its blocks alone x 30 encoder/decoder sequences x in-place/copy"
    chk.rule = (
        "round trip: texts over the quantifier's alphabet (fixed in advance; ligature sequences excluded by construction, URL atoms "
        "blank-delimited, $...$ math atoms) as field value, @string value and NameParts parts, under default, no-math and no-urls "
        "options; decode(encode(t)) must equal t. scope/type/error: libraries by construction with every block kind and value type "
        "x encoder / decoder / both with every constructor option incl. custom converters that raise on a marker: classes, keys, "
        "entry types, field keys and order, raw, start lines, non-text values and non-entry/non-string blocks canonically "
        "unchanged, text values stay str, NameParts keep list-of-str parts, String.value stays str, a raising converter yields a "
        "MiddlewareErrorBlock holding the original entry (failing value unaltered) and never an exception. Non-trivial: text with a "
        "non-ASCII letter, TeX special, URL or math atom; every scope case."
    )
    chk.required_classes = ["non-ascii", "tex-special", "url", "math", "where:string", "where:nameparts", "opts:no-math", "opts:no-urls", "custom-converter", "error-contained", "natural-failure-contained"]
    chk.assumptions = [
        "the round-trip alphabet excludes what the property's quantifier excludes ('^', '\"', the five TeX ligature sequences) and the 10 Latin letters pylatexenc 2.11 maps non-injectively",
        "how a failing @string conversion is contained is not specified by the statement: only 'no exception' is asserted for it",
        "values that are lists (incl. lists of NameParts) are required to be unchanged or to stay lists of the same element types",
    ]
