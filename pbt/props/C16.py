"""C16 - block sorting is a stable permutation by (type, key) keeping comments attached."""
import itertools

from bibtexparser.library import Library
from bibtexparser.middlewares import SortBlocksByTypeAndKeyMiddleware
from bibtexparser.model import (
    DuplicateFieldKeyBlock,
    Entry,
    ExplicitComment,
    Field,
    ImplicitComment,
    ParsingFailedBlock,
    Preamble,
    String,
)

from .. import harness, libgen
from ..compare import canon, mutable_ids

PROP = "C16"
MODNAME = __name__

TYPES = {"String": String, "Preamble": Preamble, "Entry": Entry, "ImplicitComment": ImplicitComment, "ExplicitComment": ExplicitComment,
         "ParsingFailedBlock": ParsingFailedBlock}
FIVE = ["String", "Preamble", "Entry", "ImplicitComment", "ExplicitComment"]
DEFAULT_ORDER = ["String", "Preamble", "Entry", "ImplicitComment", "ExplicitComment"]  # documented default

U_SIZE = 16
U_SMALL = [1, 2, 4, 6, 9, 11, 13, 14]


def make_block(u, line):
    """A fresh instance of universe block u tagged by a unique start line."""
    u = u % U_SIZE
    if u <= 4:
        key = ["", "a", "b", "B", "a"][u]
        typ = "article" if u < 4 else "book"
        fields = [Field("t", "{%d}" % u, line)]
        if u in (1, 2, 3):
            # entries that refer to one another (crossref = the key of another entry of the universe): block order is by
            # type and key only
            fields.append(Field("crossref", {1: "b", 2: "B", 3: "a"}[u], line))
        return Entry(typ, key, fields, line, f"@{typ}{{{key},...}}")
    if u <= 8:
        key = ["", "a", "b", "B"][u - 5]
        return String(key, '"s%d"' % u, line, f"@string{{{key} = ...}}")
    if u <= 10:
        return Preamble("p%d" % u, line, "@preamble{p%d}" % u)
    if u == 11:
        return ExplicitComment("ec", line, "@comment{ec}")
    if u == 12:
        return ImplicitComment("ic%d" % u, line, "ic%d" % u)
    if u == 13:
        return ImplicitComment("% Encoding: UTF-8", line, "% Encoding: UTF-8")  # the header line some reference managers write
    if u == 14:
        return ParsingFailedBlock(error=Exception("bad"), start_line=line, raw="@bad{")
    return DuplicateFieldKeyBlock({"x"}, Entry("misc", "a", [Field("x", "1", line), Field("x", "2", line)], line, "@misc{a,x=1,x=2}"))


def is_comment(b):
    return isinstance(b, (ExplicitComment, ImplicitComment))


def o_sort(inp):
    """inp: {"blocks": [universe index...], "order": [type names] | None, "preserve": bool}"""
    # the start line doubles as the unique tag of a block; it is not monotone in the input order (a library filled by
    # two parses, or by hand): "original relative order" is the order in the library, not the order of line numbers
    n_in = len(inp["blocks"])
    mode = sum(inp["blocks"]) % 4
    if mode == 3:
        lines = [5 * i + 2 for i in range(n_in)]  # several blank lines between consecutive blocks
    elif mode == 1:
        lines = [n_in - 1 - i for i in range(n_in)]
    elif mode == 2:
        m = next(q for q in itertools.count(max(n_in, 2)) if q > 7 and all(q % d for d in range(2, int(q ** 0.5) + 1)))
        lines = [(i * 7 + 3) % m for i in range(n_in)]
    else:
        lines = list(range(n_in))
    blocks = [make_block(u, lines[i]) for i, u in enumerate(inp["blocks"])]
    lib = Library(blocks)  # equal keys get wrapped into DuplicateBlockKeyBlock here
    inblocks = list(lib.blocks)
    order_names = inp["order"]
    kw = {"preserve_comments_on_top": inp["preserve"]}
    if order_names is not None:
        kw["block_type_order"] = tuple(TYPES[n] for n in order_names)
        order = [TYPES[n] for n in order_names]
    else:
        order = [TYPES[n] for n in DEFAULT_ORDER]
    c0 = canon(lib)
    ids0 = mutable_ids(lib)
    out = libgen.maybe_preuse(libgen.construct(SortBlocksByTypeAndKeyMiddleware, kw, (inp["blocks"], inp["order"])), inp["blocks"], same=lib).transform(lib)
    cls = ["preserve" if inp["preserve"] else "flat"]
    if any(type(b).__name__ == "DuplicateBlockKeyBlock" for b in inblocks):
        cls.append("duplicate-key-block")
    if any(isinstance(b, ParsingFailedBlock) for b in inblocks):
        cls.append("failed-blocks")
    if any(type(b) not in order for b in inblocks if type(b).__name__ in FIVE):
        cls.append("type-omitted-from-order")
    if inblocks and is_comment(inblocks[-1]):
        cls.append("trailing-comment-run")
    keyed = [(type(b), b.key) for b in inblocks if hasattr(b, "key")]
    if len(set(keyed)) < len(keyed) or len({k for _, k in keyed}) < len(keyed):
        cls.append("equal-keys")
    if canon(lib) != c0:
        return (("input-mutated", "input library changed", "input unchanged"), True, cls)
    if not isinstance(out, Library):
        return (("type", repr(out), "Library"), True, cls)
    shared = set(mutable_ids(out)) & set(ids0)
    if shared:
        return (("aliasing", f"{len(shared)} mutable objects shared with the input", "none"), True, cls)
    outblocks = list(out.blocks)
    # permutation: nothing lost, duplicated or altered
    if sorted((repr(canon(b)) for b in outblocks)) != sorted(repr(canon(b)) for b in inblocks):
        return (("not-a-permutation", repr([b.start_line for b in outblocks]), repr([b.start_line for b in inblocks])), True, cls)
    pos_in = {b.start_line: i for i, b in enumerate(inblocks)}
    tags = [b.start_line for b in outblocks]

    def rank(b):
        return order.index(type(b)) if type(b) in order else len(order)

    def skey(b):
        return (rank(b), getattr(b, "key", ""))

    nontrivial = len(inblocks) >= 2 and (tags != sorted(tags) or any(is_comment(b) for b in inblocks[:-1]))
    if not inp["preserve"]:
        for p in range(len(outblocks) - 1):
            a, b = outblocks[p], outblocks[p + 1]
            if skey(a) > skey(b):
                return (("order:flat", repr([(type(x).__name__, getattr(x, "key", "")) for x in outblocks]), "non-decreasing (type rank, key)"), True, cls)
            if skey(a) == skey(b) and pos_in[a.start_line] > pos_in[b.start_line]:
                return (("stability:flat", repr(tags), "ties keep input order"), True, cls)
        return (None, nontrivial, cls)
    # comments on top
    mains = [b for b in outblocks if not is_comment(b)]
    for a, b in zip(mains, mains[1:]):
        if skey(a) > skey(b):
            return (("order:preserve", repr([(type(x).__name__, getattr(x, "key", "")) for x in mains]), "non-comment blocks non-decreasing by (type rank, key)"), True, cls)
        if skey(a) == skey(b) and pos_in[a.start_line] > pos_in[b.start_line]:
            return (("stability:preserve", repr([x.start_line for x in mains]), "ties keep input order"), True, cls)
    # every non-comment block keeps the comment run that was directly above it
    out_index = {t: i for i, t in enumerate(tags)}
    i = 0
    run = []
    trailing = []
    for b in inblocks:
        if is_comment(b):
            run.append(b.start_line)
            continue
        p = out_index[b.start_line]
        above = tags[max(0, p - len(run)) : p]
        if above != run:
            return (("comment-run-detached", f"above block {b.start_line}: {above!r} (output order {tags!r})", f"{run!r} directly above it"), True, cls)
        if run:
            cls.append("attached-run")
        run = []
    trailing = run
    if trailing:
        p0 = out_index[trailing[0]]
        if tags[p0 : p0 + len(trailing)] != trailing:
            return (("trailing-run-broken", repr(tags), f"{trailing!r} contiguous and in order"), True, cls)
        tclasses = {type(inblocks[pos_in[t]]) for t in trailing}
        if len(tclasses) == 1:
            tr = rank(inblocks[pos_in[trailing[0]]])
            for m in mains:
                mp = out_index[m.start_line]
                if rank(m) < tr and mp > p0:
                    return (("trailing-run-rank", f"run {trailing!r} of rank {tr} placed before block {m.start_line} of rank {rank(m)}: {tags!r}", "ordered by the rank of its type"), True, cls)
                if rank(m) > tr and mp < p0:
                    return (("trailing-run-rank", f"run {trailing!r} of rank {tr} placed after block {m.start_line} of rank {rank(m)}: {tags!r}", "ordered by the rank of its type"), True, cls)
    return (None, nontrivial, cls)


SUBS = {"sort": o_sort}


def all_orders():
    out = []
    for k in range(0, 6):
        out += [list(p) for p in itertools.permutations(FIVE, k)]
    return out


def w_enum(acc, length, first, order_lo, order_hi, stride):
    orders = all_orders()[order_lo:order_hi:stride]
    for rest in itertools.product(U_SMALL, repeat=max(0, length - 1)):
        blocks = ([first] + list(rest)) if length else []
        for od in orders:
            for pres in (True, False):
                acc.run("sort", o_sort, {"blocks": blocks, "order": od, "preserve": pres}, True)
        if order_lo == 0:
            for pres in (True, False):
                acc.run("sort", o_sort, {"blocks": blocks, "order": None, "preserve": pres}, True)


def w_large(acc, n):
    blocks = [(i * 7 + i // 5) % U_SIZE for i in range(n)]
    for od in (None, [], ["Entry", "String"], ["ExplicitComment", "Preamble", "Entry"]):
        for pres in (True, False):
            acc.run("sort", o_sort, {"blocks": blocks, "order": od, "preserve": pres}, True)
    acc.classes["large-library"] += 1


def w_random(acc, n, seed):
    from hypothesis import strategies as st

    comments = st.lists(st.sampled_from([11, 12, 13]), max_size=3)
    body = st.lists(st.integers(0, U_SIZE - 1), max_size=10)
    blocks = st.tuples(comments, body, comments).map(lambda t: t[0] + t[1] + t[2])
    order = st.one_of(st.none(), st.permutations(FIVE).flatmap(lambda p: st.integers(0, 5).map(lambda k: list(p[:k]))),
                      st.permutations(FIVE + ["ParsingFailedBlock"]).map(lambda p: list(p[:4])))
    strat = st.fixed_dictionaries({"blocks": blocks, "order": order, "preserve": st.booleans()})
    harness.run_hyp(acc, "sort", o_sort, strat, n, seed)


def run(chk):
    quick = chk.tier == "quick"
    n_orders = len(all_orders())
    maxlen = 4
    tasks = []
    for L in range(0, maxlen + 1):
        firsts = U_SMALL if L else [None]
        for f in firsts:
            if L <= 3:
                tasks.append(("w_enum", (L, f, 0, n_orders, 1)))
            else:
                for lo, hi in harness.chunks(n_orders, 4):
                    tasks.append(("w_enum", (L, f, lo, hi, 8 if quick else 1)))
    tasks += [("w_large", (n,)) for n in (130, 300, 1100)]
    n_rand = 12000 if quick else 300000
    shards = 8 if quick else 32
    for s in range(shards):
        tasks.append(("w_random", (n_rand // shards, harness.seed_for(chk.seed, PROP, s))))
    harness.pmap(chk.acc, MODNAME, tasks)
    chk.acc.exhaustive["libraries"] = (
        f"every library of length <= 3 over the 7-block sub-universe x all {n_orders} sub-permutations of the five block types "
        f"(+ default) x both comment modes; length 4 x " + ("every 8th order" if quick else "all orders")
    )
    chk.rule = (
        "cases = (library of 0-16 blocks from a 16-block universe with equal keys across types, empty keys, failed / "
        "duplicate-key / duplicate-field blocks and leading/trailing comment runs; block-type order; comment mode). "
        "Oracle: permutation of canonical forms, input unchanged and identity-disjoint, non-decreasing (rank, key) with "
        "stable ties (all blocks, or the non-comment subsequence when comments are kept on top), every comment run still "
        "directly above its block, trailing run contiguous and - when of a single class - placed by the rank of that class. "
        "Non-trivial: >= 2 blocks and the order changes or a comment run is attached; distinct by case."
    )
    chk.required_classes = ["preserve", "flat", "duplicate-key-block", "failed-blocks", "type-omitted-from-order", "trailing-comment-run", "equal-keys", "attached-run"]
    chk.assumptions = ["the position of a trailing comment run of mixed comment classes, and its position relative to blocks of equal rank, is not asserted (the statement does not fix it)"]
