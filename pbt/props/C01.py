"""C01 - parsing and re-writing never raise: bad input becomes failed blocks."""
import re
import time

import bibtexparser
from bibtexparser.library import Library
from bibtexparser.model import ImplicitComment, ParsingFailedBlock

from .. import harness, libgen, splitinputs, tokens

PROP = "C01"
MODNAME = __name__

OPENER = re.compile(r"@\w*[ \t]*\{")
FORMATS = [None, {"value_column": "auto"}, {"trailing_comma": True, "indent": ""}, {"block_separator": "\n-----\n", "value_column": 12}]
SMALL_INPUT_LIMIT_S = 60


def _body(text, formats):
    lib = bibtexparser.parse_string(text)
    if not isinstance(lib, Library):
        return ("parse-result-type", type(lib).__name__, "Library"), None
    nfail = 0
    for b in lib.blocks:
        if isinstance(b, ParsingFailedBlock):
            nfail += 1
            if not isinstance(b.error, Exception) or not isinstance(b.raw, str):
                return ("failed-block-without-error-or-raw", f"error={b.error!r} raw={b.raw!r}", "an Exception and the raw text"), None
    if not OPENER.search(text):
        if nfail or len(lib.blocks) > 1 or any(not isinstance(b, ImplicitComment) for b in lib.blocks):
            return ("no-opener-text", repr([type(b).__name__ for b in lib.blocks]), "at most one implicit comment, no failed block"), None
    for f in formats:
        out = bibtexparser.write_string(lib, bibtex_format=libgen.build_format(f))
        if not isinstance(out, str):
            return ("write-result-type", type(out).__name__, "str"), None
    return None, (len(lib.blocks), nfail)


def o_text(text):
    has_opener = bool(OPENER.search(text))
    try:
        with harness.time_limit(SMALL_INPUT_LIMIT_S):
            fail, info = _body(text, FORMATS)
    except harness.TimeLimit:
        if len(text) < 1024:
            return (("hang", f"no result after {SMALL_INPUT_LIMIT_S}s on a {len(text)}-character input", "terminates"), True, ("hang",))
        return (None, False, ("inconclusive-timeout",))
    if fail:
        return (fail, True, ())
    nblocks, nfail = info
    cls = []
    if has_opener:
        cls.append("has-opener")
    if nfail:
        cls.append("failed-blocks")
    return (None, has_opener and (nfail > 0 or nblocks >= 2), cls)


def o_family(inp):
    """inp: {"family": name, "n": scale}"""
    fam = dict(splitinputs.scaled_families(inp["n"]))
    text = fam[inp["family"]]
    budget = 120 + inp["n"] // 500
    t0 = time.time()
    try:
        with harness.time_limit(budget):
            fail, info = _body(text, FORMATS[:2])
    except harness.TimeLimit:
        return (None, False, ("inconclusive-timeout:" + inp["family"],))
    if fail:
        return ((fail[0] + ":" + inp["family"], fail[1], fail[2]), True, ("family",))
    return (None, True, ("family", "family:" + inp["family"]))


SUBS = {"text": o_text, "family": o_family}


def w_sigma(acc, L, prefix):
    harness.run_cases(acc, "text", o_text, splitinputs.sigma_s_texts(L, prefix), True)


def w_frame(acc, frame, L, prefix):
    harness.run_cases(acc, "text", o_text, splitinputs.frame_texts(frame, L, prefix), True)


def w_random(acc, n, seed):
    harness.run_hyp(acc, "text", o_text, splitinputs.st_garbage(), n, seed)


def w_family(acc, name, n):
    acc.run("family", o_family, {"family": name, "n": n}, True)


def w_lengths(acc, name, lo, hi):
    for n in range(lo, hi):
        acc.run("family", o_family, {"family": name, "n": n}, True)


def w_fuzz(acc, runs, seed):
    """Coverage-guided engine (atheris/libFuzzer) on bytes -> utf-8 -> parse_string -> tiling/line oracle -> write_string.
    The corpus it builds and any crash are re-run through the plain oracle before anything is recorded."""
    from .. import fuzzrun

    seeds = ["@a{k, t = {v}}", "@string{s = \"x\"}\n@a{k, t = s # {y}}", "@comment{c}\n% x\n@preamble{p}", ""]
    dictionary = tokens.SIGMA_S + ["@string{", "@comment{", "@preamble{", "\\\n", "\r\n"]
    fuzzrun.run_atheris(acc, "C01", "text", o_text, runs, seed, dictionary, seeds)


def run(chk):
    quick = chk.tier == "quick"
    L = 5 if quick else 6
    FL = 4 if quick else 6
    tasks = []
    scales = [1000, 3000, 10000] if quick else [1000, 3000, 10000, 100000]
    for n in scales:
        for name, _ in splitinputs.scaled_families(1):
            tasks.append(("w_family", (name, n)))
    for name, _ in splitinputs.LENGTH_FAMILIES:
        tasks.append(("w_lengths", (name, 1, 151)))
        tasks.append(("w_lengths", (name, 151, 301 if quick else 1025)))
    tasks.append(("w_fuzz", (150000 if quick else 5000000, chk.seed)))
    tasks += [("w_sigma", t) for t in tokens.seq_tasks(tokens.SIGMA_S, L)]
    for fr in splitinputs.FRAMES_S:
        tasks += [("w_frame", (fr,) + t) for t in tokens.seq_tasks(tokens.SIGMA_F, FL, prefix_len=1 if FL <= 5 else 2)]
    n_rand = 30000 if quick else 300000
    shards = 16 if quick else 64
    for s in range(shards):
        tasks.append(("w_random", (n_rand // shards, harness.seed_for(chk.seed, PROP, s))))
    harness.pmap(chk.acc, MODNAME, tasks)
    chk.acc.exhaustive["sigma_s"] = f"every sequence of <= {L} tokens of {tokens.SIGMA_S!r}"
    chk.acc.exhaustive["frames"] = f"every sequence of <= {FL} tokens of {tokens.SIGMA_F!r} inside the frames {splitinputs.FRAMES_S!r}"
    chk.extra["size_scaled_families"] = {"scales": scales, "families": [n for n, _ in splitinputs.scaled_families(1)]}
    chk.rule = (
        "inputs = texts. Engines: token enumeration over the splitter's mark classes (exhaustive to the bound), frames, "
        "Hypothesis arbitrary Unicode / mark soups / damaged documents, size-scaled families (blank and comment lines, "
        "long values, deep nesting, unterminated openers, many entries/fields/duplicates ...) at the stated scales, and a "
        "coverage-guided atheris campaign whose corpus and crashes are re-run through the plain oracle. Oracle: "
        "parse_string returns a Library and write_string (4 formats) a str without any exception and within the watchdog; "
        "every failed block carries an Exception and a str raw; text without a block opener gives at most one implicit "
        "comment. Non-trivial: the input has a block opener and yields a failed block or >= 2 blocks; each family case."
    )
    chk.required_classes = ["has-opener", "family"]
    chk.assumptions = [
        "hang detection: only inputs < 1 KiB that do not finish within 60 s count as violations; a size-scaled input exceeding its budget is recorded as inconclusive",
        "the atheris campaign is pinned only approximately by -seed/-runs; anything it finds is reproduced through the plain oracle before it is reported",
    ]
