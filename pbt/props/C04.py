"""C04 - malformed blocks never damage neighbours: parsing resyncs at the next @block."""
import re

import bibtexparser
from bibtexparser.model import ParsingFailedBlock
from bibtexparser.splitter import Splitter

from .. import bibgen, harness, splitcheck, splitinputs, tokens
from ..compare import canon

PROP = "C04"
MODNAME = __name__

# (D1, D2) pairs: D1 ends with a complete @-block, D2 starts with one at a line start; keys disjoint.
PAIRS = [
    ("@a{d1, t = {v}}", "@b{d2, u = {w}}\n"),
    ("@a{d1, t = \"v\" # s}", "@string{z2 = {w}}\n@b{d2, u = z2 # {x}}"),
    ("@string{z1 = \"v\"}", "@comment{c2}\ntext after\n@b{d2}"),
    ("@preamble{p1}", "@preamble{p2 {x}}\n"),
    ("@comment{c1}", "@b{d2,\n u = {multi\nline},\n}\n% tail"),
    ("free text\n@a{d1}", "@b{d2, u = {1}, v = {two}}"),
    ("@a{d1,\n t = {x},\n}", "@B{d2, u = \"q {\"} r\"}\nfree"),
    ("@a{d1}@a{d1b}", "@comment{c2 {n}}@b{d2}"),
    ("@a{d1, x = {1}, x = {2}}", "@b{d2, y = {1}, y = {2}}"),
    ("@a{d1, t = {v}}\n@a{d1, t = {dup}}", "@b{d2, u = {w}}\n@b{d2, u = {dup}}"),
    ("% only text\n@a{d1, t = {\\\\\n}}", "@string{z2 = \"a\" # \"b\"}"),
    ("", "@b{d2, u = {w}}"),
    # escaped delimiters on the line of D2's opener (they are literal text: no brace is closed or opened by them)
    ("@a{d1, t = {v\\}}}", "@b{d2, g = {a\\}}}\n@b{d2b, h = \"\\{\"}"),
    ("@comment{c1 \\{}", "@b{d2, g = {\\{ x}, h = {y\\}\\}}} trailing \\} text\n"),
]


PAIR_KEYS = re.compile(r"d1|d2|z1|z2|c1|c2")


def _parse(text, mode):
    if mode == "splitter":
        return Splitter(text).split()
    return bibtexparser.parse_string(text)


def _shifted(blocks, dl):
    """canon of blocks with every start line shifted by dl."""
    out = []
    for b in blocks:
        c = canon(b)
        out.append(_shift(c, dl))
    return out


def _shift(c, dl):
    if isinstance(c, tuple):
        if len(c) == 2 and c[0] in ("_start_line_in_file", "_start_line") and isinstance(c[1], tuple) and c[1] and c[1][0] == "int":
            return (c[0], ("int", c[1][1] + dl))
        return tuple(_shift(x, dl) for x in c)
    return c


def _strip_index(c):
    """canon of an exception carries end_index (an absolute offset): drop offsets for suffix comparison."""
    if isinstance(c, tuple):
        if len(c) == 2 and c[0] == ("str", "end_index"):
            return (c[0], "<offset>")
        return tuple(_strip_index(x) for x in c)
    return c


def _relation_fail(d1, x, d2, mode):
    n1 = _parse(d1, mode).blocks
    n2 = _parse(d2, mode).blocks
    # 1. prefix stability
    if d1:
        got = _parse(d1 + x, mode).blocks[: len(n1)]
        if [canon(b) for b in got] != [canon(b) for b in n1]:
            return (f"prefix:{mode}", repr([splitcheck.describe_block(b) for b in got]), repr([splitcheck.describe_block(b) for b in n1]))
    # 2. resynchronisation at a line start
    pre = x + "\n"
    got = _parse(pre + d2, mode).blocks
    tail = got[len(got) - len(n2):] if len(n2) else []
    dl = pre.count("\n")
    if len(got) < len(n2) or [_strip_index(c) for c in _shifted(n2, dl)] != [_strip_index(canon(b)) for b in tail]:
        return (f"resync:{mode}", repr([(b.start_line, splitcheck.describe_block(b)) for b in tail]), repr([(b.start_line + dl, splitcheck.describe_block(b)) for b in n2]))
    return None


def o_triple(inp):
    """inp: {"pair": index, "x": text}"""
    d1, d2 = PAIRS[inp["pair"] % len(PAIRS)]
    x = inp["x"]
    if PAIR_KEYS.search(x):
        return (None, False, ("keys-not-disjoint",))  # the property's triples have disjoint keys
    lib = Splitter(x).split()
    needs_resync = any(isinstance(b, ParsingFailedBlock) for b in lib.blocks) or x.count("{") != x.count("}") or x.count('"') % 2 == 1
    cls = ["resync-needed"] if needs_resync else []
    for mode in ("splitter", "parse_string"):
        f = _relation_fail(d1, x, d2, mode)
        if f:
            return (f, needs_resync, cls)
    return (None, needs_resync, cls)


def o_concat(inp):
    """inp: {"d1": derivation, "d2": derivation, "x": text or None}: concatenation of well-formed documents."""
    t1, e1 = bibgen.render(inp["d1"])
    t2, e2 = bibgen.render(inp["d2"])
    cls = ["concat"]
    for mode in ("splitter", "parse_string"):
        b1 = _parse(t1, mode).blocks
        b2 = _parse(t2, mode).blocks
        # documents are joined at a line start; D2 keeps its own leading whitespace
        joined = t1 + "\n" + t2
        got = _parse(joined, mode).blocks
        dl = (t1 + "\n").count("\n")
        # free text at the seam merges into one comment: only compare when the seam is between two @-blocks
        if (e1 and e1[-1]["kind"] == "icomment") or (e2 and e2[0]["kind"] == "icomment"):
            cls.append("seam-free-text")
            continue
        exp = [_strip_index(canon(b)) for b in b1] + [_strip_index(c) for c in _shifted(b2, dl)]
        if [_strip_index(canon(b)) for b in got] != exp:
            return ((f"concat:{mode}", repr([(b.start_line, splitcheck.describe_block(b)) for b in got]), repr([splitcheck.describe_block(b) for b in b1] + [(b.start_line + dl, splitcheck.describe_block(b)) for b in b2])), True, cls)
        if inp.get("x") is not None and mode == "splitter":
            # (under parse_string a bare reference in D1/D2 may legitimately resolve to a @string that X defines)
            f = None
            x = inp["x"]
            cls.append("with-x")
            gotx = _parse(t1 + x, mode).blocks[: len(b1)]
            if e1 and e1[-1]["kind"] != "icomment" and [canon(b) for b in gotx] != [canon(b) for b in b1]:
                f = (f"prefix-deriv:{mode}", repr([splitcheck.describe_block(b) for b in gotx]), repr([splitcheck.describe_block(b) for b in b1]))
            if f is None and e2:
                pre = x + "\n"
                gots = _parse(pre + t2.lstrip(), mode).blocks
                b2s = _parse(t2.lstrip(), mode).blocks
                dls = pre.count("\n")
                tail = gots[len(gots) - len(b2s):] if b2s else []
                if len(gots) < len(b2s) or [_strip_index(c) for c in _shifted(b2s, dls)] != [_strip_index(canon(b)) for b in tail]:
                    f = (f"resync-deriv:{mode}", repr([(b.start_line, splitcheck.describe_block(b)) for b in tail]), repr([(b.start_line + dls, splitcheck.describe_block(b)) for b in b2s]))
            if f:
                return (f, True, cls)
    return (None, True, cls)


SUBS = {"triple": o_triple, "concat": o_concat}


def w_sigma(acc, L, prefix, pair_lo, pair_hi):
    for t in tokens.seqs(tokens.SIGMA_S, L, prefix):
        x = "".join(t)
        for p in range(pair_lo, pair_hi):
            acc.run("triple", o_triple, {"pair": p, "x": x}, True)


def w_large(acc, n, pair):
    """Size boundaries: X = the size-scaled families (deep nesting, thousands of lines / fields / openers)."""
    for name, x in splitinputs.scaled_families(n):
        acc.run("triple", o_triple, {"pair": pair, "x": x}, True)
    acc.classes["large-x"] += 1


def w_truncations(acc):
    blocks = ["@article{k9,\n  title = {A {B} c},\n  author = \"X and Y\",\n  year = 2000,\n}", "@string{s9 = \"str\" # {x}}", "@preamble{pre {x} y}", "@comment{a {b} c}",
              "@a{k9, t = \"q {\"} r\", u = {v}}",
              # an entry that repeats a field key: whatever the splitter remembers about it must not outlive the block
              "@article{k9, title = {A}, title = {B}, note = {closed}, z = 1}", "@a{k9, x = 1, X = 2, x = 3,\n y = {z}, y = \"w\"}"]
    for b in blocks:
        for i in range(len(b) + 1):
            for p in range(len(PAIRS)):
                acc.run("triple", o_triple, {"pair": p, "x": b[:i]}, True)


def w_random(acc, n, seed):
    from hypothesis import strategies as st

    tri = st.fixed_dictionaries({"pair": st.integers(0, len(PAIRS) - 1), "x": splitinputs.st_garbage()})
    harness.run_hyp(acc, "triple", o_triple, tri, n, seed)
    d1 = bibgen.strategies(max_items=5, key_pool=None).map(lambda d: _rekey(d, "L"))
    d2 = bibgen.strategies(max_items=5, key_pool=None).map(lambda d: _ensure_block_first(_rekey(d, "R")))
    con = st.fixed_dictionaries({"d1": d1, "d2": d2, "x": st.one_of(st.none(), splitinputs.st_garbage())})
    harness.run_hyp(acc, "concat", o_concat, con, max(100, n // 2), seed)


def _rekey(deriv, tag):
    """Make keys of two derivations disjoint."""
    for it in deriv:
        if it["k"] in ("entry", "string"):
            it["key"] = tag + it["key"] if it["k"] == "string" else tag + it["key"]
    return deriv


def _ensure_block_first(deriv):
    """D2 starts with an @-block at a line start: drop leading free text and leading blanks."""
    while deriv and deriv[0]["k"] in ("gap", "text"):
        deriv = deriv[1:]
    return deriv


def run(chk):
    quick = chk.tier == "quick"
    L = 4 if quick else 5
    tasks = [("w_truncations", ())]
    np = len(PAIRS)
    for t in tokens.seq_tasks(tokens.SIGMA_S, L, prefix_len=2):
        if t[0] == L and L >= 4:
            for lo in range(0, np, 4):
                tasks.append(("w_sigma", t + (lo, min(np, lo + 4))))
        else:
            tasks.append(("w_sigma", t + (0, np)))
    tasks += [("w_large", (n, p)) for n in ((130, 1100) if quick else (130, 1100, 5000)) for p in ((0, 1, 4, 9) if quick else range(np))]
    n_rand = 8000 if quick else 200000
    shards = 16 if quick else 64
    for s in range(shards):
        tasks.append(("w_random", (n_rand // shards, harness.seed_for(chk.seed, PROP, s))))
    harness.pmap(chk.acc, MODNAME, tasks)
    chk.acc.exhaustive["x-tokens"] = f"X = every sequence of <= {L} tokens of {tokens.SIGMA_S!r} x {np} fixed (D1, D2) pairs covering every block kind at the boundary; every truncation of 5 valid blocks x the pairs"
    chk.rule = (
        "cases = (well-formed D1 ending in a complete block, arbitrary X, well-formed D2 starting with a block at a line "
        "start; keys disjoint). Relations (bare Splitter and default parse_string): parse(D1+X) starts with parse(D1)'s "
        "blocks (canonical equality); the last blocks of parse(X + newline + D2) equal parse(D2) with all start lines "
        "shifted by the newlines before D2; parse(D1 + newline + D2) = parse(D1) ++ shifted parse(D2) for grammar "
        "derivations. Engines: exhaustive X tokens and truncations, Hypothesis garbage/damaged X, Hypothesis derivation "
        "pairs. Non-trivial: X alone yields a failed block or leaves a brace/quote open (a resync was needed); every "
        "concatenation case."
    )
    chk.required_classes = ["resync-needed", "concat", "with-x"]
