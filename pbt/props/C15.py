"""C15 - month middlewares share one 12-month table, compose, and leave non-months alone."""
import itertools

from bibtexparser.library import Library
from bibtexparser.middlewares import (
    MonthAbbreviationMiddleware,
    MonthIntMiddleware,
    MonthLongStringMiddleware,
)
from bibtexparser.middlewares.names import NameParts
from bibtexparser.model import Entry, Field

from .. import harness, libgen
from ..compare import canon

PROP = "C15"
MODNAME = __name__

# The table, written from the statement (12 English month names; abbreviation = first three
# letters lower-cased; long form = capitalised name).  Deliberately not imported from month.py.
FULL = ["January", "February", "March", "April", "May", "June", "July", "August", "September",
        "October", "November", "December"]
ABBR = [n[:3].lower() for n in FULL]
MW = {"Int": MonthIntMiddleware, "Abbr": MonthAbbreviationMiddleware, "Long": MonthLongStringMiddleware}


def expected(kind, m):
    return {"Int": m, "Abbr": ABBR[m - 1], "Long": FULL[m - 1]}[kind]


def month_of(v):
    """m in 1..12 if v is an unenclosed spelling of a month per the statement; 0 if it is not;
    None if the statement leaves it open (non-ASCII digit strings, bools)."""
    if isinstance(v, bool):
        return None
    if isinstance(v, int):
        return v if 1 <= v <= 12 else 0
    if not isinstance(v, str):
        return 0
    if v.isascii() and v.isdigit():
        if len(v) > 4300:
            return None  # beyond what int() converts: only "does not raise" is asserted
        iv = int(v)
        return iv if 1 <= iv <= 12 else 0
    if v.isdigit() or (v and all(ch.isdigit() or ch.isdecimal() or ch.isnumeric() for ch in v)):
        return None  # digit characters outside ASCII: neither direction is asserted
    if v.isascii():
        low = v.lower()
        if low in ABBR:
            return ABBR.index(low) + 1
        for i, n in enumerate(FULL):
            if low == n.lower():
                return i + 1
    return 0


def dec(v):
    """JSON value spec -> Python value."""
    if isinstance(v, dict) and "nameparts" in v:
        return NameParts(**{k: list(x) for k, x in v["nameparts"].items()})
    if isinstance(v, dict) and "none" in v:
        return None
    if isinstance(v, dict) and "bigdigits" in v:
        return v["digit"] * v["bigdigits"]
    if isinstance(v, dict) and "bigint" in v:
        return v["sign"] * 10 ** v["bigint"]  # a Python int beyond what str() / f-strings convert by default
    if isinstance(v, list):
        return [dec(x) for x in v]
    return v


def _mk_entry(value, key="month"):
    return Entry(
        "article",
        "k1",
        [Field("title", "{T}", 1), Field(key, value, 2), Field("year", "2000", 3)],
        start_line=0,
        raw="@article{k1,...}",
    )


def o_apply(inp):
    """inp: {"v": value spec, "mws": [kind, ...], "inplace": bool, "key": field key}"""
    value = dec(inp["v"])
    key = inp.get("key", "month")
    entry = _mk_entry(value, key)
    other = Entry("book", "k2", [Field("title", "{No month}", 7)], start_line=6, raw="@book{k2,...}")
    blocks = [entry, other]
    if inp.get("macro") and isinstance(value, str) and value:
        # a @string whose key is (a case variant of) the month spelling stands in the library - the month middlewares
        # look at the value the field holds now, whatever macros the library defines
        from bibtexparser.model import String

        mk = {"same": value, "upper": value.upper(), "lower": value.lower()}[inp["macro"]]
        blocks = [String(mk, '"macro text"', 20, "@string{...}"), entry, other, String("feb", '"F"', 21, "@string{feb}")]
    lib = Library(blocks)
    other_canon = canon(other)
    entry_canon_nometa = canon(entry, ignore=("_parser_metadata",))
    field_obj = entry.fields[1]
    cur = lib
    for kind in inp["mws"]:
        cur = libgen.maybe_preuse(libgen.construct(MW[kind], {"allow_inplace_modification": inp["inplace"]}, (repr(inp["v"]), inp["mws"])), (inp["v"], inp["mws"]), same=cur).transform(cur)
    if not isinstance(cur, Library) or len(cur.blocks) != len(blocks):
        return (("shape", f"{type(cur).__name__} with {len(getattr(cur, 'blocks', []))} blocks", f"library of {len(blocks)} blocks"), True, ())
    out_entry, out_other = [b for b in cur.blocks if isinstance(b, Entry)][:2] if len(blocks) > 2 else cur.blocks
    if not isinstance(out_entry, Entry):
        return (("entry-replaced", type(out_entry).__name__, "Entry"), True, ())
    keys = [f.key for f in out_entry.fields]
    if keys != ["title", key, "year"]:
        return (("fields-changed", repr(keys), "['title', %r, 'year']" % key), True, ())
    fld = out_entry.fields[1]
    got = fld.value
    m = month_of(value) if key == "month" else 0
    classes = ["months" if m else ("unspecified" if m is None else "non-month"), "mws%d" % min(len(inp["mws"]), 3),
               "inplace" if inp["inplace"] else "copy"] + (["same-named-macro-in-library"] if len(blocks) > 2 else [])
    # the rest of the library is untouched
    if canon(out_other) != other_canon:
        return (("other-entry-changed", repr(canon(out_other)), repr(other_canon)), True, classes)
    if canon(out_entry.fields[0]) != canon(Field("title", "{T}", 1)) or canon(out_entry.fields[2]) != canon(Field("year", "2000", 3)):
        return (("other-field-changed", repr([canon(f) for f in out_entry.fields]), "title/year untouched"), True, classes)
    if m is None:
        return (None, False, classes)
    if m:
        exp = expected(inp["mws"][-1], m)
        if type(got) is not type(exp) or got != exp:
            return ((f"mapping:{'>'.join(inp['mws'])}", f"{type(got).__name__} {got!r}", f"{type(exp).__name__} {exp!r}"), True, classes)
        return (None, True, classes)
    # not a month: returned unchanged with its type
    if inp["inplace"]:
        if fld is not field_obj:
            return (("field-object-replaced", repr(fld), "the same Field"), True, classes)
        ok = got is value
    else:
        ok = type(got) is type(value) and canon(got) == canon(value)
    if not ok:
        return ((f"non-month-changed:{inp['mws'][-1]}", f"{type(got).__name__} {harness._short(got, 80)}", f"unchanged {type(value).__name__} {harness._short(value, 80)}"), True, classes)
    if canon(out_entry, ignore=("_parser_metadata",)) != entry_canon_nometa:
        return (("non-month-entry-changed", repr(canon(out_entry)), repr(entry_canon_nometa)), True, classes)
    nontrivial = isinstance(value, int) or (isinstance(value, str) and (value.strip("{}\" ").lower() in ABBR or value.strip("{}\" ").isdigit() or value[:3].lower() in ABBR))
    return (None, bool(nontrivial) or key != "month", classes)


SUBS = {"apply": o_apply}


def case_variants(word):
    for bits in itertools.product((0, 1), repeat=len(word)):
        yield "".join(c.upper() if b else c.lower() for c, b in zip(word, bits))


def month_spellings():
    out = []
    for m in range(1, 13):
        seen = set()
        cand = [m] + ["0" * z + str(m) for z in (0, 1, 2, 3, 8, 9, 10, 17, 63, 64, 255)]
        cand += list(case_variants(ABBR[m - 1])) + list(case_variants(FULL[m - 1]))
        for c in cand:
            k = (type(c).__name__, c)
            if k not in seen:
                seen.add(k)
                out.append(c)
    return out


NON_MONTHS = [
    -1, 0, 13, 10**6, -12, 2**70,
    "0", "13", "00", "000", "99", "012345", "{jan}", '"1"', "{1}", '"jan"', "{January}", "janu", "sept", "",
    " jan", "jan ", "1.0", "+1", "-1", "1 ", " 1", "jan.", "j", "ja", "mayy", "ma", "Janvier", "march 1", "1e0",
    "0x1", "1_0", "jan # feb", "{}", '""', "month", "décembre", "juni", "ſep", "Auguſt", "ｊａｎ", "ｍａｙ", "jan\u0301", "ȷan", "İan", " 7 ", "+3", "1_2", "0_9", "1 2", "٠٧",
    [], ["jan"], [1], {"none": 1}, {"nameparts": {"first": ["jan"], "von": [], "last": ["May"], "jr": []}},
    1.0, 5.5,
    {"bigint": 5000, "sign": 1}, {"bigint": 4300, "sign": -1}, {"bigint": 4299, "sign": 1}, {"bigint": 20000, "sign": 1},
    {"bigdigits": 4300, "digit": "1"}, {"bigdigits": 6000, "digit": "9"}, {"bigdigits": 60, "digit": "0"},
]
UNSPECIFIED = ["１", "²", "٣", "①", "1２", "१२", "⑫", "Ⅻ", "½", "１３"]

PAIRS = [(a,) for a in MW] + [(a, b) for a in MW for b in MW]
TRIPLES = [(a, b, c) for a in MW for b in MW for c in MW]


def w_exhaustive(acc, lo, hi):
    sp = month_spellings()
    cases = []
    for k, v in enumerate(sp[lo:hi]):
        for mws in PAIRS:
            for inplace in (True, False):
                cases.append({"v": v, "mws": list(mws), "inplace": inplace})
        for mws in TRIPLES:
            # chains of three (e.g. Long, Int, Long): the entry already carries the first middleware's metadata
            cases.append({"v": v, "mws": list(mws), "inplace": (k + len(mws[0])) % 2 == 0})
        if isinstance(v, str):
            for mws in PAIRS[:3]:
                for macro in ("same", "upper", "lower"):
                    cases.append({"v": v, "mws": list(mws), "inplace": (k + len(macro)) % 2 == 0, "macro": macro})
    harness.run_cases(acc, "apply", o_apply, cases, distinct_by_construction=True)


def w_nonmonths(acc):
    cases = []
    for v in NON_MONTHS + UNSPECIFIED:
        for mws in PAIRS:
            for inplace in (True, False):
                cases.append({"v": v, "mws": list(mws), "inplace": inplace})
    # a field called Month / MONTH is not the month field; an entry without month is untouched
    for key in ("Month", "MONTH", "months", "mon"):
        for v in (1, "jan", "13", "January"):
            for mws in PAIRS:
                cases.append({"v": v, "mws": list(mws), "inplace": True, "key": key})
    harness.run_cases(acc, "apply", o_apply, cases, distinct_by_construction=True)


def w_random(acc, n, seed):
    from hypothesis import strategies as st

    digits = st.text(alphabet=st.characters(categories=["Nd", "No", "Nl"]), min_size=1, max_size=6)
    texts = st.one_of(
        st.text(max_size=12),
        digits,
        st.text(alphabet="0123456789", min_size=1, max_size=40),
        st.builds(lambda a, b: a + b, st.sampled_from(ABBR + [f.lower() for f in FULL] + ["1", "12", "0"]), st.text(max_size=3)),
        st.builds(lambda a, b: b + a, st.sampled_from(ABBR + FULL), st.text(max_size=2)),
        st.sampled_from(ABBR + FULL).flatmap(lambda w: st.lists(st.booleans(), min_size=len(w), max_size=len(w)).map(lambda bs: "".join(c.upper() if b else c.lower() for c, b in zip(w, bs)))),
        st.integers(-20, 40),
        st.integers(),
    )
    strat = st.fixed_dictionaries({"v": texts, "mws": st.sampled_from(PAIRS + TRIPLES).map(list), "inplace": st.booleans(), "macro": st.sampled_from([None, None, None, "same", "upper", "lower"])})
    harness.run_hyp(acc, "apply", o_apply, strat, n, seed)


def run(chk):
    quick = chk.tier == "quick"
    n_sp = len(month_spellings())
    tasks = [("w_exhaustive", (lo, hi)) for lo, hi in harness.chunks(n_sp, 14)]
    tasks.append(("w_nonmonths", ()))
    n_rand = 20000 if quick else 1000000
    shards = 8 if quick else 32
    for s in range(shards):
        tasks.append(("w_random", (n_rand // shards, harness.seed_for(chk.seed, "C15", s))))
    harness.pmap(chk.acc, MODNAME, tasks)
    chk.acc.exhaustive["month-spellings"] = (
        f"all {n_sp} spellings of the 12 months (int; decimal string with 0-3 leading zeros; every letter-case "
        f"variant of abbreviation and full name) x 3 middlewares + 9 ordered pairs x in-place/copy mode"
    )
    chk.extra["all_exhaustive"] = False
    chk.extra["month_spellings"] = n_sp
    chk.rule = (
        "cases = (value, middleware sequence of length 1-2, in-place/copy). Exhaustive over all month spellings "
        "and a fixed list of non-month values; random (Hypothesis) over Unicode text, digit characters of all "
        "categories, near-miss spellings and arbitrary ints. Non-trivial: the value is a month spelling (mapping "
        "and composition clauses) or an int / digit string / enclosed or prefixed look-alike (unchanged clause); "
        "distinct by (value, middlewares, mode)."
    )
    chk.required_classes = ["months", "non-month", "mws2", "copy", "same-named-macro-in-library"]
    chk.assumptions = [
        "strings of non-ASCII digit characters (e.g. fullwidth or superscript digits) and bools are only required not to raise: the statement does not say whether they spell a month",
    ]
