"""C19 - an entry behaves like an insertion-ordered mapping of its fields; equality is structural."""
import copy
import itertools

import bibtexparser
from bibtexparser.model import Entry, ExplicitComment, Field, ImplicitComment, Preamble, String
from bibtexparser.splitter import Splitter

from .. import harness

PROP = "C19"
MODNAME = __name__

KEYS = ["a", "b", "A", "title", "x-y", "", "id", "Id", "entrytype", "ıd"]
KEYS_SMALL = ["a", "b", "A"]

# ---------------------------------------------------------------------------------------------
# mapping histories
# ---------------------------------------------------------------------------------------------


def o_mapping(inp):
    """inp: {"type", "key", "fields": [[k, v]...], "ops": [[name, args...]]}"""
    fields = [Field(k, v, i) for i, (k, v) in enumerate(inp["fields"])]
    entry = Entry(inp["type"], inp["key"], fields, start_line=0, raw="raw")
    model = {f.key: f for f in fields}
    cls = set()
    replaced = removed = 0
    missing = object()

    def state_fail(step, op):
        got_keys = [f.key for f in entry.fields]
        if got_keys != list(model) or any(f is not model[f.key] for f in entry.fields):
            return (f"fields-order:{op[0]}", f"step {step} {op!r}: {entry.fields!r}", repr(list(model.values())))
        fd = entry.fields_dict
        if list(fd) != list(model) or any(fd[k] is not model[k] for k in fd):
            return (f"fields_dict:{op[0]}", f"step {step} {op!r}: {fd!r}", repr(model))
        exp_items = [("ENTRYTYPE", inp["type"]), ("ID", inp["key"])] + [(k, f.value) for k, f in model.items()]
        if list(entry.items()) != exp_items:
            return (f"items:{op[0]}", f"step {step} {op!r}: {entry.items()!r}", repr(exp_items))
        return None

    f = state_fail(-1, ["init"])
    if f:
        return (f, True, ())
    # a deep copy taken now is an independent mapping: nothing done to `entry` may show in it
    twin = copy.deepcopy(entry)
    twin_snapshot = [(x.key, repr(x.value), x.start_line) for x in twin.fields]
    # every Field object ever stored keeps its content: a dict never alters a value object that a later
    # assignment replaces or that an earlier lookup handed out
    seen_fields = {id(x): (x, (x.key, repr(x.value), x.start_line)) for x in fields}

    def objects_fail(step, op):
        for x in list(model.values()):
            if id(x) not in seen_fields:
                seen_fields[id(x)] = (x, (x.key, repr(x.value), x.start_line))
        for obj, snap in seen_fields.values():
            if (obj.key, repr(obj.value), obj.start_line) != snap:
                return (f"field-object-altered:{op[0]}", f"step {step} {op!r}: a Field stored earlier changed from {snap!r} to {(obj.key, repr(obj.value), obj.start_line)!r}", "field objects are replaced, not altered")
        return None

    for step, op in enumerate(inp["ops"]):
        name = op[0]
        if name in ("set_field", "setitem"):
            _, k, v = op
            if k in model:
                replaced += 1
                cls.add("replace-existing")
            else:
                cls.add("append-new")
            if name == "set_field":
                # the Field handed over is the caller's object: stored as it is (with or without a start line of its own)
                fld = Field(k, v, 100 + step) if (step + len(k)) % 2 else Field(k, v)
                seen_fields[id(fld)] = (fld, (fld.key, repr(fld.value), fld.start_line))
                entry.set_field(fld)
                model[k] = fld
            else:
                entry[k] = v
                cand = [x for x in entry.fields if x.key == k]
                if len(cand) != 1 or cand[0].value != v:
                    return ((f"setitem-stored", f"step {step} {op!r}: {entry.fields!r}", f"one field {k!r} = {v!r}"), True, sorted(cls))
                model[k] = cand[0]
        elif name in ("pop_default_own", "get_default_own"):
            # the default handed in is one of the entry's own Field objects (`e.pop(k, e.get(k2))`): for a dict the
            # default is an opaque value - returned if the key is missing, and nothing else happens
            k, k2 = op[1], op[2]
            dflt = model.get(k2)
            cls.add("default-is-own-field")
            if name == "pop_default_own":
                exp = model.pop(k, missing)
                got = entry.pop(k, dflt)
            else:
                exp = model.get(k, missing)
                got = entry.get(k, dflt)
            exp_ret = dflt if exp is missing else exp
            if got is not exp_ret:
                return ((f"return:{name}", f"step {step} {op!r} returned {got!r}", repr(exp_ret)), True, sorted(cls))
        elif name in ("pop", "pop_default"):
            k = op[1]
            exp = model.pop(k, missing)
            if exp is not missing:
                removed += 1
                cls.add("remove-existing")
            if name == "pop":
                got = entry.pop(k)
                exp_ret = None if exp is missing else exp
            else:
                got = entry.pop(k, op[2])
                exp_ret = op[2] if exp is missing else exp
            if not (got is exp_ret or (exp is missing and got == exp_ret)):
                return ((f"return:{name}", f"step {step} {op!r} returned {got!r}", repr(exp_ret)), True, sorted(cls))
        elif name == "del":
            k = op[1]
            exp = model.pop(k, missing)
            if exp is not missing:
                removed += 1
                cls.add("remove-existing")
            try:
                del entry[k]
            except KeyError:
                if exp is not missing:
                    return (("del-existing-raised", f"step {step} {op!r} raised KeyError", "field removed"), True, sorted(cls))
        elif name in ("get", "get_default"):
            k = op[1]
            if name == "get":
                got, exp_ret = entry.get(k), model.get(k)
            else:
                got, exp_ret = entry.get(k, op[2]), model.get(k, op[2])
            if not (got is exp_ret or (k not in model and got == exp_ret)):
                return ((f"return:{name}", f"step {step} {op!r} returned {got!r}", repr(exp_ret)), True, sorted(cls))
        elif name == "contains":
            k = op[1]
            got = k in entry
            if got is not (k in model):
                return (("return:contains", f"step {step} {op!r} returned {got!r}", repr(k in model)), True, sorted(cls))
        elif name == "getitem":
            k = op[1]
            try:
                got = entry[k]
                if k not in model:
                    return (("getitem-absent-returned", f"step {step} {op!r} returned {got!r}", "KeyError"), True, sorted(cls))
                if got is not model[k].value and got != model[k].value:
                    return (("return:getitem", f"step {step} {op!r} returned {got!r}", repr(model[k].value)), True, sorted(cls))
            except KeyError:
                if k in model:
                    return (("getitem-present-raised", f"step {step} {op!r} raised KeyError", repr(model[k].value)), True, sorted(cls))
                cls.add("keyerror")
        elif name in ("rename", "revalue"):
            # the stored Field is edited through its public setters: every view must follow ("always describe the same fields")
            k = op[1]
            if k not in model:
                continue
            fld = model[k]
            if name == "revalue":
                fld.value = op[2]
            elif op[2] not in model and op[2] not in ("ENTRYTYPE", "ID"):
                fld.key = op[2]
                model = {(op[2] if kk == k else kk): vv for kk, vv in model.items()}
                cls.add("field-renamed-in-place")
            seen_fields[id(fld)] = (fld, (fld.key, repr(fld.value), fld.start_line))
        elif name == "reserved":
            got = entry[op[1]]
            exp_ret = inp["type"] if op[1] == "ENTRYTYPE" else inp["key"]
            if got != exp_ret:
                return (("return:reserved", f"step {step} {op!r} returned {got!r}", repr(exp_ret)), True, sorted(cls))
        else:
            raise harness.HarnessError(f"unknown op {op!r}")
        f = state_fail(step, op) or objects_fail(step, op)
        if f:
            return (f, True, sorted(cls))
    if twin.fields is entry.fields or [(x.key, repr(x.value), x.start_line) for x in twin.fields] != twin_snapshot:
        return (("deepcopy-not-independent", repr(twin.fields), repr(twin_snapshot)), True, sorted(cls))
    return (None, replaced > 0 and removed > 0, sorted(cls))


# ---------------------------------------------------------------------------------------------
# equality
# ---------------------------------------------------------------------------------------------

DOCS = [
    "@article{k1,\n  title = {A {B} c},\n  author = \"X and Y\",\n  year = 2000\n}\n\n@string{s = \"str\"}\n@preamble{pre {x}}\n% free text\n@comment{ec}\n@book{k2, t = s # \"x\"}\n",
    "leading\ntext\n@misc{a,}\n@misc{b}\n@string{t = {u}}\n@misc{c, x = t, y = {t}, z = 1}\ntrailing",
    "@comment{one}\n@comment{two}\n@preamble{\"p\"}\n@a{k, f = {v}, g = {w}, h = {v}}\n",
]


def _blocks_of(doc_i, stack):
    text = DOCS[doc_i % len(DOCS)]
    if stack == "split":
        return Splitter(text).split().blocks
    return bibtexparser.parse_string(text).blocks


def build(spec):
    """spec: {"cls": ..., attrs...} -> object through the public constructors."""
    c = spec["cls"]
    if c == "Field":
        return Field(spec["key"], spec["value"], spec["start_line"])
    if c == "Entry":
        b = Entry(spec["type"], spec["key"], [build(f) for f in spec["fields"]], spec["start_line"], spec["raw"])
    elif c == "String":
        b = String(spec["key"], spec["value"], spec["start_line"], spec["raw"])
    elif c == "Preamble":
        b = Preamble(spec["value"], spec["start_line"], spec["raw"])
    elif c == "ExplicitComment":
        b = ExplicitComment(spec["comment"], spec["start_line"], spec["raw"])
    elif c == "ImplicitComment":
        b = ImplicitComment(spec["comment"], spec["start_line"], spec["raw"])
    else:
        raise harness.HarnessError(f"unknown class {c}")
    for k, v in spec.get("meta", []):
        b.set_parser_metadata(k, copy.deepcopy(v))
    return b


def spec_of(x):
    if isinstance(x, Field):
        return {"cls": "Field", "key": x.key, "value": x.value, "start_line": x.start_line}
    meta = [[k, v] for k, v in x.parser_metadata.items()]
    base = {"start_line": x.start_line, "raw": x.raw, "meta": meta}
    if isinstance(x, Entry):
        return dict(base, cls="Entry", type=x.entry_type, key=x.key, fields=[spec_of(f) for f in x.fields])
    if isinstance(x, String):
        return dict(base, cls="String", key=x.key, value=x.value)
    if isinstance(x, Preamble):
        return dict(base, cls="Preamble", value=x.value)
    if isinstance(x, ExplicitComment):
        return dict(base, cls="ExplicitComment", comment=x.comment)
    if isinstance(x, ImplicitComment):
        return dict(base, cls="ImplicitComment", comment=x.comment)
    return None


def perturbations(spec):
    """[(name, perturbed spec)]: each differs from spec in exactly one attribute."""
    out = []

    def mod(name, **ch):
        s = copy.deepcopy(spec)
        s.update(ch)
        out.append((name, s))

    if spec["cls"] == "Field":
        mod("field.key", key=spec["key"] + "x")
        mod("field.key-case", key=spec["key"].swapcase() if spec["key"].swapcase() != spec["key"] else spec["key"] + "X")
        mod("field.value", value=(spec["value"] + " ") if isinstance(spec["value"], str) else [spec["value"]])
        mod("field.start_line", start_line=(spec["start_line"] or 0) + 1)
        mod("field.start_line-none", start_line=None if spec["start_line"] is not None else 0)
        return out
    mod("start_line", start_line=(spec["start_line"] or 0) + 1)
    mod("raw", raw=(spec["raw"] or "") + " ")
    mod("meta-added", meta=spec["meta"] + [["extra", 1]])
    if spec["meta"]:
        m2 = copy.deepcopy(spec["meta"])
        m2[0][1] = ["changed", m2[0][1]]
        mod("meta-changed", meta=m2)
        mod("meta-removed", meta=spec["meta"][1:])
    c = spec["cls"]
    if c == "Entry":
        mod("entry.key", key=spec["key"] + "x")
        mod("entry.type", type=spec["type"] + "x")
        fs = spec["fields"]
        mod("entry.field-added", fields=fs + [{"cls": "Field", "key": "zz", "value": "{1}", "start_line": 0}])
        if fs:
            mod("entry.field-removed", fields=fs[:-1])
            for nm, fp in perturbations(fs[0])[:4]:
                mod("entry." + nm, fields=[fp] + fs[1:])
            for nm, fp in perturbations(fs[-1])[:4]:
                if len(fs) > 1:
                    mod("entry.last-" + nm, fields=fs[:-1] + [fp])
        if len(fs) >= 2 and fs[0] != fs[1]:
            mod("entry.fields-swapped", fields=[fs[1], fs[0]] + fs[2:])
        if len(fs) >= 1:
            mod("entry.field-duplicated", fields=fs + [fs[0]])
    elif c == "String":
        mod("string.key", key=spec["key"] + "x")
        mod("string.value", value=spec["value"] + "x")
    elif c == "Preamble":
        mod("preamble.value", value=spec["value"] + "x")
    elif c == "ExplicitComment":
        mod("comment.text", comment=spec["comment"] + "x")
        mod("comment.class-swap", cls="ImplicitComment")
    elif c == "ImplicitComment":
        mod("comment.text", comment=spec["comment"] + "x")
        mod("comment.class-swap", cls="ExplicitComment")
    return out


def _eq_fail(x, spec, where):
    # copies compare equal, reflexive, symmetric
    for nm, y in (("self", x), ("copy", copy.copy(x)), ("deepcopy", copy.deepcopy(x)), ("rebuilt", build(spec))):
        if not (x == y) or not (y == x) or (x != y) or (y != x):
            return (f"equal-content-unequal:{where}:{nm}", f"{x!r} == {nm} -> {x == y}, != -> {x != y}", "equal")
    for other in (None, 5, "x", object()):
        if x == other or not (x != other):
            return (f"equal-to-foreign:{where}", f"{x!r} == {other!r}", "unequal")
    for nm, pspec in perturbations(spec):
        y = build(pspec)
        if (x == y) or (y == x) or not (x != y) or not (y != x):
            return (f"perturbed-equal:{nm}", f"{x!r} == twin differing in {nm}", "unequal")
    return None


def o_equality(inp):
    """inp: {"doc": i, "stack": "split"|"default"} - all blocks/fields of a parsed document, or
    {"spec": {...}} - a block given by construction."""
    if "spec" in inp:
        specs = [inp["spec"]]
        objs = [build(inp["spec"])]
    else:
        objs = [b for b in _blocks_of(inp["doc"], inp["stack"]) if spec_of(b) is not None]
        specs = [spec_of(b) for b in objs]
    n = 0
    cls = set()
    for x, spec in zip(objs, specs):
        f = _eq_fail(x, spec, spec["cls"])
        if f:
            return (f, True, sorted(cls))
        cls.add("eq:" + spec["cls"])
        if spec["cls"] == "Entry":
            for fx, fs in zip(x.fields, spec["fields"]):
                f = _eq_fail(fx, fs, "Field")
                if f:
                    return (f, True, sorted(cls))
                cls.add("eq:Field")
    # blocks of different classes / different blocks of one document are unequal
    for (x, sx), (y, sy) in itertools.combinations(zip(objs, specs), 2):
        if sx != sy and (x == y or y == x):
            return (("distinct-blocks-equal", f"{x!r} == {y!r}", "unequal"), True, sorted(cls))
    return (None, True, sorted(cls))


SUBS = {"mapping": o_mapping, "equality": o_equality}

# ---------------------------------------------------------------------------------------------


def small_ops(keys):
    ops = []
    for k in keys:
        ops += [["set_field", k, "v"], ["setitem", k, "w"], ["pop", k], ["del", k], ["get", k], ["getitem", k], ["contains", k]]
    ops.append(["pop_default", keys[0], "dflt"])
    ops.append(["get_default", keys[1], 7])
    ops.append(["pop_default_own", keys[0], keys[1]])
    ops.append(["get_default_own", keys[2], keys[0]])
    ops.append(["rename", keys[0], "zz"])
    ops.append(["rename", keys[1], keys[2]])
    ops.append(["reserved", "ENTRYTYPE"])
    ops.append(["reserved", "ID"])
    return ops


def w_enum(acc, depth, first, start):
    ops = small_ops(KEYS_SMALL)
    base = {"type": "article", "key": "K", "fields": start}
    for rest in itertools.product(ops, repeat=depth - 1):
        acc.run("mapping", o_mapping, dict(base, ops=[ops[first]] + list(rest)), True)


def strategies():
    from hypothesis import strategies as st

    key = st.sampled_from(KEYS)
    val = st.one_of(st.sampled_from(["v", "{x}", "", "1"]), st.integers(0, 3), st.lists(st.sampled_from(["p", "q"]), max_size=2))
    op = st.one_of(
        st.tuples(st.just("set_field"), key, val).map(list),
        st.tuples(st.just("setitem"), key, val).map(list),
        st.tuples(st.just("pop"), key).map(list),
        st.tuples(st.just("pop_default"), key, st.sampled_from(["d", None, 0])).map(list),
        st.tuples(st.sampled_from(["pop_default_own", "get_default_own"]), key, key).map(list),
        st.tuples(st.just("del"), key).map(list),
        st.tuples(st.just("get"), key).map(list),
        st.tuples(st.just("get_default"), key, st.sampled_from(["d", None, 0])).map(list),
        st.tuples(st.just("contains"), key).map(list),
        st.tuples(st.just("getitem"), key).map(list),
        st.tuples(st.just("reserved"), st.sampled_from(["ENTRYTYPE", "ID"])).map(list),
        st.tuples(st.just("rename"), key, st.sampled_from(KEYS + ["renamed", "Renamed"])).map(list),
        st.tuples(st.just("revalue"), key, val).map(list),
    )
    start = st.lists(st.tuples(key, val).map(list), max_size=5, unique_by=lambda kv: kv[0])
    mapping = st.fixed_dictionaries({"type": st.sampled_from(["article", "Book", ""]), "key": st.sampled_from(["K", "a", ""]), "fields": start, "ops": st.lists(op, min_size=1, max_size=30)})

    text = st.sampled_from(["", "a", "A", "{x}", '"q"', "x y", "é", "1", "a\nb"])
    line = st.one_of(st.none(), st.integers(0, 5))
    fspec = st.fixed_dictionaries({"cls": st.just("Field"), "key": text, "value": st.one_of(text, st.integers(0, 2), st.lists(text, max_size=2)), "start_line": line})
    meta = st.lists(st.tuples(st.sampled_from(["removed_enclosing", "m", "x"]), st.one_of(text, st.dictionaries(text, text, max_size=2), st.lists(text, max_size=2))).map(list), max_size=2, unique_by=lambda kv: kv[0])
    base = {"start_line": line, "raw": st.one_of(st.none(), text), "meta": meta}
    espec = st.fixed_dictionaries(dict(base, cls=st.just("Entry"), type=text, key=text, fields=st.lists(fspec, max_size=4)))
    sspec = st.fixed_dictionaries(dict(base, cls=st.just("String"), key=text, value=text))
    pspec = st.fixed_dictionaries(dict(base, cls=st.just("Preamble"), value=text))
    cspec = st.fixed_dictionaries(dict(base, cls=st.sampled_from(["ExplicitComment", "ImplicitComment"]), comment=text))
    equality = st.one_of(espec, espec, sspec, pspec, cspec, fspec).map(lambda s: {"spec": s})
    return mapping, equality


def w_random(acc, n, seed):
    mapping, equality = strategies()
    harness.run_hyp(acc, "mapping", o_mapping, mapping, n, seed)
    harness.run_hyp(acc, "equality", o_equality, equality, max(200, n // 2), seed)


def w_large(acc, n):
    fields = [["k%d" % i, "v%d" % i] for i in range(n)]
    ops = []
    for i in range(0, n, 3):
        ops += [["setitem", "k%d" % i, "w"], ["pop", "k%d" % (i + 1)], ["set_field", "new%d" % i, "x"], ["get", "k%d" % (i + 2)], ["contains", "k%d" % (i + 1)]]
    ops += [["del", "k0"], ["getitem", "k2"], ["rename", "k2", "renamed"], ["reserved", "ID"]]
    acc.run("mapping", o_mapping, {"type": "article", "key": "K", "fields": fields, "ops": ops}, True)
    acc.classes["large-entry"] += 1


def w_docs(acc):
    for i in range(len(DOCS)):
        for stack in ("split", "default"):
            acc.run("equality", o_equality, {"doc": i, "stack": stack}, True)


def w_machine(acc, n, seed):
    """Second engine for histories: Hypothesis rule-based state machine building the op list."""
    from hypothesis import seed as hseed
    from hypothesis import settings
    from hypothesis import strategies as st
    from hypothesis.stateful import RuleBasedStateMachine, initialize, invariant, rule, run_state_machine_as_test

    state = {"last": None}
    key = st.sampled_from(KEYS)

    class EntryMachine(RuleBasedStateMachine):
        def __init__(self):
            super().__init__()
            self.inp = {"type": "article", "key": "K", "fields": [], "ops": []}

        @initialize(fields=st.lists(st.tuples(key, st.sampled_from(["v", "{x}"])).map(list), max_size=4, unique_by=lambda kv: kv[0]))
        def start(self, fields):
            self.inp["fields"] = fields

        @rule(k=key, v=st.sampled_from(["n1", "n2", 3]))
        def set_field(self, k, v):
            self.inp["ops"].append(["set_field", k, v])

        @rule(k=key, v=st.sampled_from(["m1", "m2"]))
        def setitem(self, k, v):
            self.inp["ops"].append(["setitem", k, v])

        @rule(k=key)
        def pop(self, k):
            self.inp["ops"].append(["pop", k])

        @rule(k=key, k2=key)
        def pop_with_own_field_as_default(self, k, k2):
            self.inp["ops"].append(["pop_default_own", k, k2])

        @rule(k=key)
        def delete(self, k):
            self.inp["ops"].append(["del", k])

        @rule(k=key)
        def lookups(self, k):
            self.inp["ops"] += [["get", k], ["contains", k], ["getitem", k], ["get_default", k, "d"]]

        @invariant()
        def agrees(self):
            if not self.inp["ops"]:
                return
            res = harness.eval_oracle(PROP, "mapping", o_mapping, self.inp)
            if res[0] is not None:
                state["last"] = (copy.deepcopy(self.inp), res[0])
                raise AssertionError(res[0][0])

        def teardown(self):
            if self.inp["ops"]:
                res = harness.eval_oracle(PROP, "mapping", o_mapping, self.inp)
                if res[0] is None:
                    acc.record("mapping", copy.deepcopy(self.inp), res)

    try:
        run_state_machine_as_test(
            hseed(seed)(EntryMachine),
            settings=settings(max_examples=n, stateful_step_count=30, deadline=None, database=None, report_multiple_bugs=False, print_blob=False),
        )
    except AssertionError:
        if state["last"] is None:
            raise
        inp, fail = state["last"]
        acc.n += 1
        acc.by_sub["mapping"] += 1
        acc.add_fail("mapping", inp, fail)


def run(chk):
    quick = chk.tier == "quick"
    depth = 3 if quick else 4
    n_ops = len(small_ops(KEYS_SMALL))
    starts = [[], [["a", "1"], ["b", "2"]], [["A", "1"], ["a", "2"], ["b", "3"]]]
    tasks = [("w_docs", ())] + [("w_large", (n,)) for n in (130, 300, 1100)]
    for d in range(1, depth + 1):
        for first in range(n_ops):
            for st_ in (starts if d < 4 else starts[2:]):
                tasks.append(("w_enum", (d, first, st_)))
    n_rand = 16000 if quick else 300000
    shards = 8 if quick else 32
    for s in range(shards):
        tasks.append(("w_random", (n_rand // shards, harness.seed_for(chk.seed, PROP, s))))
    for s in range(4 if quick else 16):
        tasks.append(("w_machine", (60 if quick else 1500, harness.seed_for(chk.seed, PROP, "machine", s))))
    harness.pmap(chk.acc, MODNAME, tasks)
    chk.acc.exhaustive["mapping-histories"] = f"every history of depth <= {depth} over {n_ops} operations on keys {KEYS_SMALL!r} from 3 start entries (depth 4: one start entry)"
    chk.rule = (
        "mapping: histories of set_field / item assignment / pop / del / get / in / [] over a key pool with case variants, "
        "compared step by step with an insertion-ordered dict of key -> Field (return values, field order, fields_dict, "
        "items()); exhaustive to the stated depth, Hypothesis lists of <= 30 ops and a rule-based state machine. "
        "equality: every block and field of parsed documents and of generated block specs is compared with its copy, "
        "deep copy and a rebuilt twin (must be equal, both directions) and with every single-attribute perturbation "
        "(key, value, type, field key/value/start line, field order, field added/removed/duplicated, start line, raw, "
        "metadata item added/changed/removed, Explicit<->Implicit class swap; must be unequal, both directions). "
        "Non-trivial: a history that replaced an existing key and removed one; every equality case."
    )
    chk.required_classes = ["replace-existing", "append-new", "remove-existing", "keyerror", "field-renamed-in-place", "eq:Entry", "eq:Field", "eq:String", "eq:Preamble", "eq:ExplicitComment", "eq:ImplicitComment"]
    chk.assumptions = ["`del entry[absent]` may raise KeyError or do nothing (its docstring calls it a shorthand for pop); the state must be unchanged either way"]
