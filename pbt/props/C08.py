"""C08 - Library views stay consistent under any sequence of add / remove / replace.

A history is a JSON list of operations interpreted from an empty Library side by side with a
model written from the docstrings of Library.add/remove/replace:

  ["add",  [ref, ...], fail_flag, as_list]      ref = ["u", i]  i-th block of the universe
  ["remove", [ref, ...], as_list]                     ["s", p]  the block currently at position p % len(blocks)
  ["replace", old_ref, new_ref, fail_flag]            ["c", i]  a structurally equal copy of universe block i

After every call (returning or raising) every view is compared with the model.
"""
import collections
import copy
import itertools

from bibtexparser.library import Library
from bibtexparser.model import (
    DuplicateBlockKeyBlock,
    DuplicateFieldKeyBlock,
    Entry,
    ExplicitComment,
    Field,
    ImplicitComment,
    ParsingFailedBlock,
    Preamble,
    String,
)

from .. import harness

PROP = "C08"
MODNAME = __name__


def make_universe():
    u = [
        Entry("article", "a", [Field("x", "1", 1)], 0, "@article{a, x=1}"),
        Entry("book", "a", [Field("y", "2", 4)], 3, "@book{a, y=2}"),
        Entry("misc", "b", [Field("x", "1", 7)], 6, "@misc{b, x=1}"),
        Entry("misc", "A", [Field("x", "3", 9)], 8, "@misc{A, x=3}"),
        String("a", '"s1"', 10, '@string{a = "s1"}'),
        String("a", '"s2"', 11, '@string{a = "s2"}'),
        String("b", '"s3"', 12, '@string{b = "s3"}'),
        Preamble("pre", 13, "@preamble{pre}"),
        ExplicitComment("ec", 14, "@comment{ec}"),
        ImplicitComment("ic", 15, "ic"),
        ParsingFailedBlock(error=Exception("boom"), start_line=16, raw="@broken{"),
        Entry("article", "a", [], 17, "@article{a}"),
        DuplicateFieldKeyBlock({"x"}, Entry("misc", "b", [Field("x", "1", 19), Field("x", "2", 19)], 18, "@misc{b,x=1,x=2}")),
        Entry("misc", "", [Field("z", "9", 21)], 20, "@misc{, z=9}"),
        String("A", '"s1"', 10, '@string{a = "s1"}'),  # differs from block 4 only in the letter case of its key
        # instances of application-defined subclasses of the model classes are entries / strings like any other
        _Article("article", "a", [Field("x", "1", 23)], 22, "@article{a, x=1}"),
        _Macro("b", '"s4"', 24, '@string{b = "s4"}'),
    ]
    return u


class _Article(Entry):
    pass


class _Macro(String):
    pass


U_SIZE = 17
U_SMALL = [0, 1, 2, 4, 5, 8, 15]  # reduced universe of the exhaustive engine


class Slot:
    __slots__ = ("kind", "obj", "key", "prev", "dupl")

    def __init__(self, kind, obj=None, key=None, prev=None, dupl=None):
        self.kind, self.obj, self.key, self.prev, self.dupl = kind, obj, key, prev, dupl


class Model:
    def __init__(self):
        self.slots = []
        self.entries = {}
        self.strings = {}

    def clone(self):
        m = Model()
        m.slots = list(self.slots)
        m.entries = dict(self.entries)
        m.strings = dict(self.strings)
        return m

    def _index_for(self, b):
        if isinstance(b, Entry):
            return self.entries
        if isinstance(b, String):
            return self.strings
        return None

    def make_slot(self, b):
        """Slot for adding b now (registers b as live if its key is free). Returns (slot, wrapped)."""
        idx = self._index_for(b)
        if idx is None:
            return Slot("plain", b), False
        if b.key in idx:
            return Slot("dup", None, b.key, idx[b.key], b), True
        idx[b.key] = b
        return Slot("plain", b), False

    def find(self, x, copy_of):
        """Position of the first held block equal to x (identity; a copy equals its original)."""
        target = copy_of.get(id(x), x)
        for i, s in enumerate(self.slots):
            if s.obj is x or (s.obj is not None and copy_of.get(id(s.obj), s.obj) is target):
                return i
        return None

    def delete(self, i):
        s = self.slots.pop(i)
        if s.kind == "plain":
            idx = self._index_for(s.obj)
            if idx is not None and idx.get(s.obj.key) is s.obj:
                del idx[s.obj.key]
        return s


def _views_fail(lib, model, where, copy_of=None):
    copy_of = copy_of or {}
    blocks = lib.blocks
    if len(blocks) != len(model.slots):
        return (f"blocks-length:{where}", f"{len(blocks)} blocks: {[type(b).__name__ for b in blocks]}", f"{len(model.slots)} blocks")
    for i, (b, s) in enumerate(zip(blocks, model.slots)):
        if s.kind == "plain":
            if b is not s.obj:
                if copy_of.get(id(b), b) is copy_of.get(id(s.obj), s.obj):
                    # a structurally equal copy took the place of its original (failed replace
                    # puts back the `old_block` argument): equal library, the model follows
                    for idx in (model.entries, model.strings):
                        for k, v in list(idx.items()):
                            if v is s.obj:
                                idx[k] = b
                    s.obj = b
                else:
                    return (f"blocks-identity:{where}", f"position {i} holds {b!r}", f"{s.obj!r}")
        else:
            if s.obj is None:
                if not isinstance(b, DuplicateBlockKeyBlock):
                    return (f"duplicate-not-wrapped:{where}", f"position {i} holds {type(b).__name__}", "DuplicateBlockKeyBlock")
                if b.key != s.key or b.previous_block is not s.prev or b.ignore_error_block is not s.dupl:
                    return (f"duplicate-wrapper-content:{where}", f"key={b.key!r} previous={b.previous_block!r} duplicate={b.ignore_error_block!r}", f"key={s.key!r} previous={s.prev!r} duplicate={s.dupl!r}")
                s.obj = b
            elif b is not s.obj:
                return (f"blocks-identity:{where}", f"position {i} holds {b!r}", "the wrapper created earlier")
    exp_entries = [s.obj for s in model.slots if s.kind == "plain" and isinstance(s.obj, Entry)]
    got_entries = lib.entries
    if len(got_entries) != len(exp_entries) or any(a is not b for a, b in zip(got_entries, exp_entries)):
        return (f"entries-view:{where}", repr(got_entries), repr(exp_entries))
    ed = lib.entries_dict
    if set(ed) != set(model.entries) or any(ed[k] is not model.entries[k] for k in ed):
        return (f"entries_dict:{where}", repr(ed), repr(model.entries))
    sd = lib.strings_dict
    if set(sd) != set(model.strings) or any(sd[k] is not model.strings[k] for k in sd):
        return (f"strings_dict:{where}", repr(sd), repr(model.strings))
    # the dict values are exactly the held live entries / strings
    exp_strings = [s.obj for s in model.slots if s.kind == "plain" and isinstance(s.obj, String)]
    got_strings = lib.strings
    if collections.Counter(map(id, got_strings)) != collections.Counter(map(id, exp_strings)):
        return (f"strings-view:{where}", repr(got_strings), repr(exp_strings))
    if sorted(map(id, ed.values())) != sorted(map(id, exp_entries)):
        return (f"entries_dict-vs-held:{where}", repr(ed), repr(exp_entries))
    if len({e.key for e in got_entries}) != len(got_entries) or len({s.key for s in got_strings}) != len(got_strings):
        return (f"shared-key:{where}", repr([e.key for e in got_entries] + [s.key for s in got_strings]), "no two held entries (strings) share a key")
    # partition
    views = collections.Counter()
    for v in (got_entries, got_strings, lib.preambles, lib.comments, lib.failed_blocks):
        views.update(map(id, v))
    if views != collections.Counter(map(id, blocks)):
        return (f"partition:{where}", "views do not partition blocks", "entries+strings+preambles+comments+failed_blocks == blocks")
    # the lists / dict handed out above are the caller's (fresh objects on every read): emptying them changes nothing
    # that the library reports afterwards (blocks and strings_dict are the library's own objects and are left alone)
    pre, com, fai = lib.preambles, lib.comments, lib.failed_blocks
    n_pre, n_com, n_fai = list(map(id, pre)), list(map(id, com)), list(map(id, fai))
    for handed_out in (got_entries, got_strings, pre, com, fai):
        del handed_out[:]
    ed.clear()
    again = lib.entries
    if len(again) != len(exp_entries) or any(a is not b for a, b in zip(again, exp_entries)):
        return (f"entries-view-after-caller-emptied-an-earlier-result:{where}", repr(again), repr(exp_entries))
    ed2 = lib.entries_dict
    if set(ed2) != set(model.entries) or any(ed2[k] is not model.entries[k] for k in ed2):
        return (f"entries_dict-after-caller-emptied-an-earlier-result:{where}", repr(ed2), repr(model.entries))
    if collections.Counter(map(id, lib.strings)) != collections.Counter(map(id, exp_strings)) or list(map(id, lib.preambles)) != n_pre or list(map(id, lib.comments)) != n_com or list(map(id, lib.failed_blocks)) != n_fai:
        return (f"views-after-caller-emptied-an-earlier-result:{where}", "strings / preambles / comments / failed_blocks changed", "unchanged")
    return None


def _snapshot(lib):
    return (list(lib.blocks), dict(lib.entries_dict), dict(lib.strings_dict))


def _same_snapshot(lib, snap, copy_of):
    """Library equal to what it was: same objects, or structurally equal copies of them, at the same positions."""
    b, e, s = snap

    def same(x, y):
        return x is y or copy_of.get(id(x), x) is copy_of.get(id(y), y)

    nb = lib.blocks
    if len(nb) != len(b) or not all(same(x, y) for x, y in zip(nb, b)):
        return False
    ne, ns = lib.entries_dict, lib.strings_dict
    return set(ne) == set(e) and all(same(ne[k], e[k]) for k in e) and set(ns) == set(s) and all(same(ns[k], s[k]) for k in s)


def o_history(ops):
    uni = make_universe()
    copies = {}
    copy_of = {}

    def deref(ref, lib):
        kind, i = ref
        if kind == "u":
            return uni[i % U_SIZE]
        if kind == "c":
            i = i % U_SIZE
            if isinstance(uni[i], ParsingFailedBlock):
                return uni[i]  # equality of failed blocks is not structural (they hold exception objects)
            if i not in copies:
                copies[i] = copy.deepcopy(uni[i])
                copy_of[id(copies[i])] = uni[i]
            return copies[i]
        bl = lib.blocks
        return bl[i % len(bl)] if bl else uni[i % U_SIZE]

    lib = Library()
    model = Model()
    init_list = None  # the list handed to Library(blocks): it stays the caller's
    cls = set()
    n_wrap = n_rm = 0
    removed_live_keys = set()
    for step, op in enumerate(ops):
        name = op[0]
        where = name
        snap = _snapshot(lib)
        m2 = model.clone()
        expect_raise = False
        known_f12 = False
        if name in ("add", "init"):
            if name == "init":
                # the other public way to fill a library: Library(blocks) - only as the first step
                if step != 0:
                    raise harness.HarnessError("init is the first op")
                refs, fail_flag, as_list = op[1], False, True
                cls.add("constructed-with-blocks")
            else:
                _, refs, fail_flag, as_list = op
            objs = [deref(r, lib) for r in refs]
            wrapped_any = False
            new_slots = []
            for b in objs:
                s, w = m2.make_slot(b)
                wrapped_any |= w
                new_slots.append(s)
                if isinstance(b, (Entry, String)) and (type(b).__name__, b.key) in removed_live_keys and not w:
                    cls.add("remove-live-then-add-same-key")
            m2.slots.extend(new_slots)
            n_wrap_step = sum(1 for s in new_slots if s.kind == "dup")
            if fail_flag and wrapped_any:
                expect_raise = True
            arg = objs if (as_list or len(objs) != 1) else objs[0]
            call = lambda: lib.add(arg, fail_on_duplicate_key=fail_flag)  # noqa: E731
            where = "add" + ("(fail_on_duplicate_key)" if fail_flag else "")
            if name == "init":
                where = "Library(blocks)"

                def call():
                    nonlocal lib, init_list
                    init_list = list(objs)
                    lib = Library(init_list)
        elif name == "remove":
            _, refs, as_list = op
            objs = [deref(r, lib) for r in refs]
            for b in objs:
                i = m2.find(b, copy_of)
                if i is None:
                    expect_raise = True
                    break
                s = m2.delete(i)
                if s.kind == "plain" and isinstance(s.obj, (Entry, String)):
                    removed_live_keys.add((type(s.obj).__name__, s.obj.key))
            arg = objs if (as_list or len(objs) != 1) else objs[0]
            call = lambda: lib.remove(arg)  # noqa: E731
            where = "remove" + ("(list)" if len(objs) > 1 else "")
            n_wrap_step = 0
        elif name == "replace":
            _, old_ref, new_ref, fail_flag = op
            old, new = deref(old_ref, lib), deref(new_ref, lib)
            i = m2.find(old, copy_of)
            n_wrap_step = 0
            if i is None:
                expect_raise = True
            else:
                s_old = m2.delete(i)
                s_new, w = m2.make_slot(new)
                m2.slots.insert(i, s_new)
                if w and fail_flag:
                    expect_raise = True
                    if any(s.kind == "dup" for s in model.slots):
                        cls.add("failing-replace-while-duplicates-held")
                elif w:
                    n_wrap_step = 1
                if isinstance(s_old.obj, String) and isinstance(new, Entry):
                    cls.add("replace-string-by-entry")
            call = lambda: lib.replace(old, new, fail_on_duplicate_key=fail_flag)  # noqa: E731
            where = "replace" + ("" if fail_flag else "(no-fail)")
        else:
            raise harness.HarnessError(f"unknown op {op!r}")

        raised = None
        arg_list = arg if name in ("add", "remove") and isinstance(arg, list) else None
        arg_before = list(arg_list) if arg_list is not None else None
        try:
            ret = call()
        except ValueError as e:
            raised = e
        # lists handed over by the caller stay the caller's: neither edited by the call nor adopted by the library
        if arg_list is not None and (len(arg_list) != len(arg_before) or any(a is not b for a, b in zip(arg_list, arg_before))):
            return ((f"caller-list-changed:{where}", f"step {step} {op!r}: {arg_list!r}", repr(arg_before)), True, sorted(cls))
        if init_list is not None and (len(init_list) != len(ops[0][1]) or (name == "init" and any(a is not b for a, b in zip(init_list, objs)))):
            return ((f"constructor-list-adopted:{where}", f"step {step} {op!r}: the list given to Library(blocks) now holds {len(init_list)} blocks", f"{len(ops[0][1])} blocks, as handed over"), True, sorted(cls))
        nontriv = n_wrap > 0 and n_rm > 0
        if raised is not None:
            cls.add("raising-call")
            if not expect_raise:
                return ((f"unexpected-ValueError:{where}", f"step {step} {op!r} raised {raised!r}", "call succeeds"), True, sorted(cls))
            if not _same_snapshot(lib, snap, copy_of):
                # F-12: add(fail_on_duplicate_key=True) is documented (message, repo test) to add and then raise
                if name == "add" and _views_fail(lib, m2, where, copy_of) is None:
                    model = m2
                    n_wrap += n_wrap_step
                    return ((f"raising-call-changed-library:{where}", f"step {step} {op!r} raised ValueError after adding {len(lib.blocks) - len(snap[0])} block(s)", "library unchanged by a raising call"), True, sorted(cls | {"F-12-shape"}))
                return ((f"raising-call-changed-library:{where}", f"step {step} {op!r}: blocks {[repr(b) for b in lib.blocks]}", f"unchanged: {[repr(b) for b in snap[0]]}"), True, sorted(cls))
            f = _views_fail(lib, model, where + ":after-raise", copy_of)
            if f:
                return (f, True, sorted(cls))
            continue
        if expect_raise:
            return ((f"missing-ValueError:{where}", f"step {step} {op!r} returned {ret!r}", "ValueError"), True, sorted(cls))
        model = m2
        n_wrap += n_wrap_step
        if name in ("remove", "replace"):
            n_rm += 1
        f = _views_fail(lib, model, where, copy_of)
        if f:
            return ((f[0], f"step {step} {op!r}: " + f[1], f[2]), True, sorted(cls))
    if init_list is not None:
        # ... and emptying it afterwards changes nothing the library reports
        del init_list[:]
        f = _views_fail(lib, model, "after-the-constructor-list-was-emptied", copy_of)
        if f:
            return (f, True, sorted(cls))
    return (None, n_wrap > 0 and n_rm > 0, sorted(cls))


def kf_add_fail_flag_adds_then_raises(sub, inp, fail):
    """F-12: the failing call is add(..., fail_on_duplicate_key=True) which added the blocks
    (consistently, wrappers included) and then raised."""
    return fail[0].startswith("raising-call-changed-library:add(fail_on_duplicate_key)") and "raised ValueError after adding" in fail[1]


SUBS = {"history": o_history}

# ---------------------------------------------------------------------------------------------


def small_ops():
    ops = []
    for i in U_SMALL:
        ops.append(["add", [["u", i]], False, False])
    ops.append(["add", [["c", 8]], False, False])
    ops.append(["add", [["c", 0]], False, False])
    ops.append(["remove", [["c", 8]], False])
    ops.append(["add", [["u", 14]], False, False])
    ops.append(["remove", [["u", 14]], False])
    ops.append(["add", [["u", 0], ["u", 1]], False, True])
    ops.append(["add", [["u", 4], ["u", 4]], False, True])
    for i in (0, 1, 4, 8):
        ops.append(["remove", [["u", i]], False])
    for p in (0, 1):
        ops.append(["remove", [["s", p]], False])
    ops.append(["remove", [["u", 0], ["u", 2]], True])
    ops.append(["remove", [["s", 0], ["s", 0]], True])
    for old in (["u", 0], ["u", 4], ["s", 0], ["s", 1]):
        for new in (0, 1, 2, 5):
            for flag in (True, False):
                ops.append(["replace", old, ["u", new], flag])
    return ops


def w_enum(acc, depth, first):
    ops = small_ops()
    for rest in itertools.product(ops, repeat=depth - 1):
        acc.run("history", o_history, [ops[first]] + list(rest), True)


def w_enum_fail_flag(acc, depth):
    # histories that use add(fail_on_duplicate_key=True): kept apart because of known finding F-12
    ops = small_ops() + [["add", [["u", i]], True, False] for i in (0, 1, 4)] + [["add", [["u", 0], ["u", 1]], True, True]]
    flagged = [o for o in ops if o[0] == "add" and o[2]]
    plain = [o for o in ops if not (o[0] == "add" and o[2])][::3]
    for d in range(1, depth + 1):
        for pos in range(d):
            for combo in itertools.product(plain, repeat=d - 1):
                for fl in flagged:
                    h = list(combo[:pos]) + [fl] + list(combo[pos:])
                    acc.run("history", o_history, h, True)


def w_large(acc, n):
    """Size boundary: a library holding n blocks (the universe is re-used, so most adds become duplicate wrappers),
    then removals from both ends and replaces in the middle."""
    ops = [["add", [["u", i % U_SIZE]], False, False] for i in range(n)]
    ops += [["remove", [["s", 0]], False], ["remove", [["s", n - 2]], False], ["replace", ["s", n // 2], ["u", 7], True],
            ["replace", ["s", n // 3], ["u", 0], False], ["remove", [["s", 1], ["s", 5]], True], ["add", [["u", 2], ["u", 6], ["u", 9]], False, True]]
    acc.run("history", o_history, ops, True)
    acc.classes["large-history"] += 1


def w_long_lists(acc):
    """List arguments of every length up to 12 (add and remove), with a block that is not held / a block listed twice at
    every position: a call that raises leaves everything as it was, however long its argument."""
    full = ["init", [["u", i] for i in range(U_SIZE)]]
    for L in range(1, 13):
        held = [["s", (j * 5) % U_SIZE] for j in range(L)]
        acc.run("history", o_history, [full, ["remove", held, True], ["add", [["u", 0], ["u", 4]], False, True]], True)
        for pos in range(L + 1):
            for bad in (["u", 1], ["s", (0 * 5) % U_SIZE]):  # uni[1] sits inside a duplicate wrapper (not held itself); the other is listed twice
                lst = held[:pos] + [bad] + held[pos:]
                acc.run("history", o_history, [full, ["remove", lst, True], ["add", [["u", 0]], False, False], ["remove", [["s", 0]], False]], True)
        many = [["u", (j * 7) % U_SIZE] for j in range(L)]
        acc.run("history", o_history, [["add", many, False, True], ["remove", [["s", j] for j in range(0, L, 2)], True], ["add", many, False, True]], True)
        acc.run("history", o_history, [["init", many], ["add", many[::-1], False, True], ["remove", [["s", 0], ["s", L - 1]] * 3, True]], True)
    acc.classes["long-list-arguments"] += 1


def op_strategy():
    from hypothesis import strategies as st

    uref = st.tuples(st.just("u"), st.integers(0, U_SIZE - 1)).map(list)
    sref = st.tuples(st.just("s"), st.integers(0, 7)).map(list)
    cref = st.tuples(st.just("c"), st.integers(0, U_SIZE - 1)).map(list)
    held_or_not = st.one_of(uref, sref, sref, cref)
    add1 = st.tuples(st.just("add"), st.lists(st.one_of(uref, uref, uref, cref), min_size=1, max_size=1), st.just(False), st.booleans()).map(list)
    addn = st.tuples(st.just("add"), st.lists(st.one_of(uref, uref, sref, cref), min_size=0, max_size=9), st.just(False), st.just(True)).map(list)
    addf = st.tuples(st.just("add"), st.lists(st.one_of(uref, uref, sref), min_size=1, max_size=3), st.just(True), st.booleans()).map(list)
    rm1 = st.tuples(st.just("remove"), st.lists(held_or_not, min_size=1, max_size=1), st.booleans()).map(list)
    rmn = st.tuples(st.just("remove"), st.lists(st.one_of(sref, sref, sref, held_or_not), min_size=0, max_size=9), st.just(True)).map(list)
    rep = st.tuples(st.just("replace"), held_or_not, st.one_of(uref, uref, sref), st.booleans()).map(list)
    return st.one_of(add1, add1, add1, addn, addf, rm1, rm1, rmn, rep, rep, rep)


def w_random(acc, n, seed, max_len):
    from hypothesis import strategies as st

    harness.run_hyp(acc, "history", o_history, st.lists(op_strategy(), min_size=1, max_size=max_len), n, seed)
    uref = st.tuples(st.sampled_from(["u", "u", "c"]), st.integers(0, U_SIZE - 1)).map(list)
    init = st.lists(uref, max_size=6).map(lambda refs: ["init", refs])
    harness.run_hyp(acc, "history", o_history, st.tuples(init, st.lists(op_strategy(), max_size=max_len)).map(lambda t: [t[0]] + t[1]), max(100, n // 3), seed + 7)


def w_init(acc):
    """Library(blocks) as the start of a history: same bookkeeping as add(list)."""
    ops = small_ops()
    inits = [[], [["u", 0]], [["u", 0], ["u", 1]], [["u", 0], ["u", 0]], [["u", 0], ["c", 0]], [["u", i] for i in U_SMALL], [["u", i] for i in range(U_SIZE)],
             [["u", i] for i in reversed(range(U_SIZE))], [["c", 0], ["u", 0], ["c", 8], ["u", 8]]]
    for refs in inits:
        acc.run("history", o_history, [["init", refs]], True)
        for a in ops:
            acc.run("history", o_history, [["init", refs], a], True)
            for b in ops:
                acc.run("history", o_history, [["init", refs], a, b], True)


def w_machine(acc, n, seed):
    """Second engine: a Hypothesis rule-based state machine that builds the history step by step
    (rules choose among currently held blocks) and hands it to the same oracle."""
    from hypothesis import seed as hseed
    from hypothesis import settings
    from hypothesis import strategies as st
    from hypothesis.stateful import RuleBasedStateMachine, invariant, precondition, rule, run_state_machine_as_test

    outer = acc
    state = {"last": None}

    class LibraryMachine(RuleBasedStateMachine):
        def __init__(self):
            super().__init__()
            self.ops = []
            self.failed = None
            self.n_held = 0

        def _push(self, op):
            self.ops.append(op)

        @rule(i=st.integers(0, U_SIZE - 1), as_list=st.booleans())
        def add(self, i, as_list):
            self._push(["add", [["u", i]], False, as_list])

        @rule(ids=st.lists(st.integers(0, U_SIZE - 1), min_size=2, max_size=4))
        def add_many(self, ids):
            self._push(["add", [["u", i] for i in ids], False, True])

        @rule(p=st.integers(0, 7))
        def remove_held(self, p):
            self._push(["remove", [["s", p]], False])

        @rule(i=st.integers(0, U_SIZE - 1))
        def remove_any(self, i):
            self._push(["remove", [["u", i]], False])

        @rule(p=st.integers(0, 7), i=st.integers(0, U_SIZE - 1))
        def remove_pair(self, p, i):
            self._push(["remove", [["s", p], ["u", i]], True])

        @rule(p=st.integers(0, 7), new=st.integers(0, U_SIZE - 1), flag=st.booleans())
        def replace_held(self, p, new, flag):
            self._push(["replace", ["s", p], ["u", new], flag])

        @rule(old=st.integers(0, U_SIZE - 1), new=st.integers(0, U_SIZE - 1), flag=st.booleans())
        def replace_any(self, old, new, flag):
            self._push(["replace", ["u", old], ["u", new], flag])

        @rule(p=st.integers(0, 7), q=st.integers(0, 7), flag=st.booleans())
        def replace_by_held(self, p, q, flag):
            self._push(["replace", ["s", p], ["s", q], flag])

        @invariant()
        def consistent(self):
            if not self.ops:
                return
            res = harness.eval_oracle(PROP, "history", o_history, self.ops)
            if res[0] is not None:
                self.failed = res
                state["last"] = (list(self.ops), res[0])
                raise AssertionError(res[0][0])

        def teardown(self):
            if self.ops and self.failed is None:
                outer.record("history", list(self.ops), harness.eval_oracle(PROP, "history", o_history, self.ops))

    try:
        run_state_machine_as_test(
            hseed(seed)(LibraryMachine),
            settings=settings(max_examples=n, stateful_step_count=30, deadline=None, database=None, report_multiple_bugs=False, print_blob=False),
        )
    except AssertionError:
        if state["last"] is None:
            raise
        # the last recorded failing history is the shrunk one (hypothesis replays the minimal example last)
        inp, fail = state["last"]
        acc.n += 1
        acc.by_sub["history"] += 1
        acc.add_fail("history", inp, fail)


def run(chk):
    quick = chk.tier == "quick"
    depth = 3 if quick else 4
    n_ops = len(small_ops())
    tasks = []
    for d in range(1, depth + 1):
        for first in range(n_ops):
            tasks.append(("w_enum", (d, first)))
    tasks.append(("w_enum_fail_flag", (3,)))
    tasks.append(("w_init", ()))
    tasks.append(("w_long_lists", ()))
    tasks += [("w_large", (n,)) for n in (130, 300, 1100)]
    n_rand = 24000 if quick else 300000
    shards = 8 if quick else 32
    for s in range(shards):
        tasks.append(("w_random", (n_rand // shards, harness.seed_for(chk.seed, PROP, s), 30)))
    for s in range(4 if quick else 16):
        tasks.append(("w_machine", (60 if quick else 1500, harness.seed_for(chk.seed, PROP, "machine", s))))
    harness.pmap(chk.acc, MODNAME, tasks)
    chk.acc.exhaustive["histories"] = f"every history of depth <= {depth} over {n_ops} operations on a reduced universe of 6 colliding blocks"
    chk.rule = (
        "cases = histories (lists of add/remove/replace calls with single/list arguments, both fail modes, arguments "
        "drawn from a 14-block universe with colliding keys, from the blocks currently held incl. duplicate wrappers, "
        "and from structurally equal copies). Engines: exhaustive to the stated depth, Hypothesis lists of <= 30 "
        "operations, Hypothesis rule-based state machine (30 steps). Oracle: reference model (slot list + two key maps) "
        "compared with every view after every call; raising calls must leave blocks (identity sequence) and both dicts "
        "unchanged. Non-trivial: the history produced >= 1 duplicate wrapper and executed >= 1 remove/replace; distinct by history."
    )
    chk.required_classes = ["raising-call", "replace-string-by-entry", "failing-replace-while-duplicates-held", "remove-live-then-add-same-key", "constructed-with-blocks"]
    chk.assumptions = [
        "the order of Library.strings is not asserted (the statement fixes order for blocks and entries only)",
        "an object added twice is held twice (two positions); 'exactly once' is read per add call",
        "remove/replace locate blocks by structural equality: with a block and its structurally equal copy both held, the first of them in block order is the one affected",
    ]
