"""C11 - @string references resolve exactly: bare matching identifiers only."""
import itertools
import re

import bibtexparser
from bibtexparser.middlewares import ResolveStringReferencesMiddleware
from bibtexparser.model import DuplicateBlockKeyBlock, Entry, String
from bibtexparser.splitter import Splitter

from .. import bibgen, harness, libgen, splitcheck
from ..compare import canon

PROP = "C11"
MODNAME = __name__

# a bare identifier as in the dialect grammar (refparse.IDENT_RE): a letter, then letters / digits / '_' / '-' / ':' / '.'
# (BibTeX macro names such as j-cacm, pub:ACM, acm.cs); what starts with a digit is a number or left open
IDENT = re.compile(r"[^\W\d_][\w\-:.]*\Z")
SKEYS = ["s", "t", "S", "j-cacm", "pub:ACM", "jan"]
VALUE_POOL = ["s", "t", "S", "u", "T", "{s}", '"s"', "{t}", '"S"', "s # t", 's # "x"', '"x" # s', "12", "s1", "ss", "{s} # t", "{{s}}", '{"s"}',
              "j-cacm", "pub:ACM", "{j-cacm}", "j-CACM", "j-cacm # s", "pub:acm", "j-cac", "jan", "Jan", "{jan}"]


def strip1(v):
    """Lexical one-layer strip (the C10 rule)."""
    s = v.strip()
    if len(s) >= 2 and s[0] == "{" and s[-1] == "}":
        return s[1:-1]
    if len(s) >= 2 and s[0] == '"' and s[-1] == '"':
        return s[1:-1]
    return s


def o_deriv(deriv):
    text, expected = bibgen.render(deriv)
    defs = {}
    for e in expected:
        if e["kind"] == "string" and e["key"] not in defs:
            defs[e["key"]] = e["value"]
    cls = set()
    n_resolved = n_lookalike = 0
    # --- default parse stack
    lib = bibtexparser.parse_string(text)
    if len(lib.blocks) != len(expected):
        return (("block-count", repr([splitcheck.describe_block(b) for b in lib.blocks]), f"{len(expected)} blocks"), True, sorted(cls))
    seen_s = set()
    first_def_pos = {}
    for i, e in enumerate(expected):
        if e["kind"] == "string" and e["key"] not in first_def_pos:
            first_def_pos[e["key"]] = i
    for i, (b, e) in enumerate(zip(lib.blocks, expected)):
        if e["kind"] == "string":
            if e["key"] in seen_s:
                cls.add("duplicate-definition")
                if type(b) is not DuplicateBlockKeyBlock:
                    return (("duplicate-string", splitcheck.describe_block(b), "DuplicateBlockKeyBlock"), True, sorted(cls))
                continue
            seen_s.add(e["key"])
            if type(b) is not String or b.key != e["key"] or b.value != strip1(e["value"]):
                return (("string-block-changed", splitcheck.describe_block(b), f"String({e['key']!r}, {strip1(e['value'])!r})"), True, sorted(cls))
            if lib.strings_dict.get(e["key"]) is not b:
                return (("string-not-registered", repr(lib.strings_dict), f"{e['key']!r} -> the first definition"), True, sorted(cls))
        elif e["kind"] == "entry":
            if type(b) is not Entry or [f.key for f in b.fields] != [f["key"] for f in e["fields"]]:
                return (("entry-shape", splitcheck.describe_block(b), repr(splitcheck._rec(e))), True, sorted(cls))
            exp_resolved = []
            for f, ef in zip(b.fields, e["fields"]):
                v = ef["value"]
                if IDENT.match(v) and v in defs:
                    want = strip1(defs[v])
                    exp_resolved.append(ef["key"])
                    n_resolved += 1
                    if first_def_pos[v] > i:
                        cls.add("definition-after-use")
                else:
                    want = strip1(v)
                    if IDENT.match(v):
                        cls.add("bare-undefined")
                        if v.lower() in {k.lower() for k in defs}:
                            cls.add("case-variant")
                            n_lookalike += 1
                    elif any(re.search(r"(?<!\w)%s(?!\w)" % re.escape(k), v) for k in defs):
                        n_lookalike += 1
                        cls.add("look-alike-enclosed-or-concatenated")
                if f.value != want:
                    sig = "resolved-value" if ef["key"] in exp_resolved else "unresolved-value-changed"
                    return ((sig, f"field {ef['key']!r} (source {v!r}) = {f.value!r}", repr(want)), True, sorted(cls))
            meta = b.parser_metadata.get("ResolveStringReferences")
            if (meta or []) != exp_resolved or (meta is not None and not exp_resolved and meta != []):
                return (("resolved-metadata", repr(meta), repr(exp_resolved)), True, sorted(cls))
        else:
            m = splitcheck.block_matches(b, e)
            if m:
                return ((f"other-block:{m}", splitcheck.describe_block(b), repr(splitcheck._rec(e))), True, sorted(cls))
    # --- the middleware alone: strings untouched, fields hold the definition's raw value
    base = Splitter(text).split()
    only = bibtexparser.parse_string(text, parse_stack=[libgen.maybe_preuse(ResolveStringReferencesMiddleware(), text)])
    # ... and the copying variant of the same middleware (allow_inplace_modification=False), applied directly
    src = Splitter(text).split()
    copied = libgen.maybe_preuse(ResolveStringReferencesMiddleware(allow_inplace_modification=False), text + "c", same=src).transform(src)
    if canon(src) != canon(base):
        return (("alone:copy-mode:input-changed", "the library handed to the copying middleware changed", "unchanged"), True, sorted(cls))
    for label, res in (("alone", only), ("alone:copy-mode", copied)):
        if len(res.blocks) != len(base.blocks):
            return ((label + ":block-count", repr([splitcheck.describe_block(b) for b in res.blocks]), f"{len(base.blocks)} blocks"), True, sorted(cls))
        for b0, b1, e in zip(base.blocks, res.blocks, expected):
            if e["kind"] != "entry":
                if canon(b0) != canon(b1):
                    return ((label + ":non-entry-changed", splitcheck.describe_block(b1), splitcheck.describe_block(b0)), True, sorted(cls))
            elif type(b1) is Entry:
                for f, ef in zip(b1.fields, e["fields"]):
                    v = ef["value"]
                    want = defs[v] if (IDENT.match(v) and v in defs) else v
                    if f.value != want:
                        return ((label + ":field", f"{ef['key']!r} = {f.value!r}", repr(want)), True, sorted(cls))
    cls.add("copy-mode")
    if n_resolved:
        cls.add("resolved")
    return (None, n_resolved > 0 and n_lookalike > 0, sorted(cls))


SUBS = {"deriv": o_deriv}


def _entry(key, values, fkeys=None):
    fields = [{"wa": " ", "key": (fkeys[i] if fkeys else "f%d" % i), "wb": " ", "wc": " ", "value": v, "wd": ""} for i, v in enumerate(values)]
    return {"k": "entry", "type": "article", "hws": "", "ws1": "", "key": key, "ws2": "", "fields": fields, "comma": False, "ws_end": ""}


def _string(key, value):
    return {"k": "string", "kw": "string", "hws": "", "ws1": "", "key": key, "ws2": " ", "ws3": " ", "value": value, "ws4": ""}


GAP = {"k": "gap", "ws": "\n"}
DEF_VALUES = ['"Def"', "{Def {x}}", "other", '"a" # "b"', "12", "t"]


def w_product(acc):
    placements = ["none", "before", "after", "twice", "after-twice", "S-only", "punctuated-keys"]
    for pl, dv in itertools.product(placements, DEF_VALUES):
        for vals in list(itertools.product(VALUE_POOL, repeat=1)) + list(itertools.product(VALUE_POOL[:9], repeat=2)):
            d = []
            if pl == "before":
                d += [_string("s", dv), GAP]
            if pl == "twice":
                d += [_string("s", dv), GAP, _string("s", '"second"'), GAP]
            if pl == "S-only":
                d += [_string("S", dv), GAP]
            if pl == "punctuated-keys":
                d += [_string("j-cacm", dv), GAP, _string("pub:ACM", '"ACM Press"'), GAP]
            d += [_entry("k1", list(vals)), GAP]
            if pl == "after":
                d += [_string("s", dv), GAP]
            if pl == "after-twice":
                d += [_string("s", dv), GAP, _entry("k2", list(vals)), GAP, _string("s", '"second"'), GAP]
            acc.run("deriv", o_deriv, d, True)


def w_structured(acc):
    """Longer structures: a defined reference after n undefined ones in one entry, many references in one entry, and
    fields whose *key* has a meaning elsewhere (month = jan with a user-defined @string jan)."""
    undefined = ["u", "T", "u2", "S1", "j-cac", "zz", "Jan", "acm"]
    for n in range(0, 13):
        for tail in (["s"], ["s", "{s}", "t"], ["t", "u", "s"]):
            vals = [undefined[i % len(undefined)] for i in range(n)] + tail
            for defs in (["s"], ["s", "t"], ["t", "s", "s"]):
                d = []
                for k in defs:
                    d += [_string(k, '"def of %s"' % k), GAP]
                d += [_entry("k1", vals), GAP, _entry("k2", list(reversed(vals))), GAP]
                acc.run("deriv", o_deriv, d, True)
                acc.run("deriv", o_deriv, list(reversed(d)), True)
    for n in (5, 9, 17, 40):
        vals = ["s" if i % 2 else "t" for i in range(n)]
        acc.run("deriv", o_deriv, [_string("s", '"S"'), GAP, _entry("k1", vals), GAP, _string("t", "{T}"), GAP], True)
    months = ["jan", "feb", "may", "dec", "Jan", "sep"]
    for m in months:
        for fk in (["month", "journal"], ["journal", "month"], ["Month", "month", "year"], ["month"]):
            for defined in ([m], [m.lower()], ["feb"], []):
                d = []
                for k in defined:
                    d += [_string(k, '"user text for %s"' % k), GAP]
                d += [_entry("k1", [m] * len(fk), fk), GAP]
                acc.run("deriv", o_deriv, d, True)
    acc.classes["structured"] += 1


def w_large(acc, n):
    for ref in ("s0", "s50", "undefined", "S0"):
        acc.run("deriv", o_deriv, bibgen.large_document(n, ref=ref), True)
    acc.classes["large-document"] += 1


def gen_refdoc(ints):
    """Documents dense in references: many @string definitions (keys s, t, S) and fields drawn from VALUE_POOL."""
    src = bibgen.Src(ints)
    items = [{"k": "gap", "ws": src.pick(bibgen.WS_ANY)}]
    n = 2 + src.below(8)
    prev_text = False
    for c in range(n):
        r = src.below(10)
        if r < 4:
            it = _string(src.pick(SKEYS), src.pick(DEF_VALUES) if src.below(3) else bibgen.gen_value(src, 3))
            it["kw"] = src.pick(["string", "String", "STRING"])
        elif r < 9 or prev_text:
            vals = [src.pick(VALUE_POOL) if src.below(10) < 7 else bibgen.gen_value(src, 3, None) for _ in range(1 + src.below(4) + (6 if src.below(5) == 0 else 0))]
            fk = None
            if src.below(3) == 0:
                pool = ["month", "journal", "doi", "crossref", "Month", "year"]
                fk = []
                for i in range(len(vals)):
                    k = src.pick(pool)
                    fk.append(k if k not in fk else "f%d" % i)
            it = _entry("k%d" % c, vals, fk)
            it["comma"] = src.below(2) == 0
            for f in it["fields"]:
                f["wd"] = src.pick(["", " ", "\n"])
                f["wc"] = src.pick(["", " ", "\n "])
        else:
            it = {"k": "text", "body": src.pick(["% s", "s t S", "text"])}
        prev_text = it["k"] == "text"
        items.append(it)
        items.append({"k": "gap", "ws": src.pick(bibgen.WS_ANY)})
    return items


def w_random(acc, n, seed):
    from hypothesis import strategies as st

    strat = bibgen.strategies(string_keys=SKEYS, value_extra=VALUE_POOL, max_items=10)
    harness.run_hyp(acc, "deriv", o_deriv, strat, n // 3, seed)
    dense = st.lists(st.integers(0, 255), min_size=20, max_size=200).map(gen_refdoc)
    harness.run_hyp(acc, "deriv", o_deriv, dense, n, seed + 1)


def run(chk):
    quick = chk.tier == "quick"
    tasks = [("w_product", ()), ("w_structured", ())] + [("w_large", (n,)) for n in (130, 300, 1100)]
    n_rand = 24000 if quick else 400000
    shards = 16 if quick else 64
    for s in range(shards):
        tasks.append(("w_random", (n_rand // shards, harness.seed_for(chk.seed, PROP, s))))
    harness.pmap(chk.acc, MODNAME, tasks)
    chk.acc.exhaustive["product"] = f"7 definition placements x {len(DEF_VALUES)} definition values x (all {len(VALUE_POOL)} value shapes for one field + 81 pairs for two fields)"
    chk.rule = (
        "inputs = grammar derivations with @string keys from {s, t, S, j-cacm, pub:ACM} (0-3 definitions each, before / after / between the "
        "entries, duplicated) and field values from bare defined / undefined / case-variant keys, '{key}', '\"key\"', "
        "concatenations, numbers and ordinary values. Oracle (constructive): a field holds strip1(first definition's value) "
        "iff its source value is a bare identifier equal to a defined key, else strip1(its own value); strings stay at their "
        "positions with key and strip1(value), first definition registered, later ones flagged; resolved field keys recorded "
        "in order; with the middleware alone strings are canon-unchanged. Non-trivial: >= 1 resolved reference and >= 1 "
        "look-alike that must not resolve in the same document."
    )
    chk.required_classes = ["resolved", "definition-after-use", "duplicate-definition", "case-variant", "look-alike-enclosed-or-concatenated", "bare-undefined"]
