"""C09 - duplicate keys are never merged or dropped: first wins, the rest are flagged."""
import itertools

import bibtexparser
from bibtexparser.model import (
    DuplicateBlockKeyBlock,
    DuplicateFieldKeyBlock,
    Entry,
    Field,
    ParsingFailedBlock,
    String,
)
from bibtexparser.library import Library
from bibtexparser.splitter import Splitter

from .. import bibgen, harness, splitcheck
from ..compare import canon

PROP = "C09"
MODNAME = __name__


def _entry_matches(b, e, values=True):
    if type(b) is not Entry:
        return f"class {type(b).__name__}"
    if b.entry_type != e["type"] or b.key != e["key"]:
        return f"type/key {b.entry_type!r}/{b.key!r}"
    if [f.key for f in b.fields] != [f["key"] for f in e["fields"]]:
        return f"field keys {[f.key for f in b.fields]!r}"
    if values and [f.value for f in b.fields] != [f["value"] for f in e["fields"]]:
        return f"field values {[f.value for f in b.fields]!r}"
    return None


def _check(lib, expected, mode):
    blocks = lib.blocks
    if len(blocks) != len(expected):
        return (f"block-count:{mode}", f"{len(blocks)} blocks: {[splitcheck.describe_block(b) for b in blocks]!r}", f"{len(expected)} source blocks"), set()
    live_e, live_s = {}, {}
    cls = set()
    seen_count = {}
    dupfield_keys = set()
    for i, (b, e) in enumerate(zip(blocks, expected)):
        k = e["kind"]
        if k == "entry":
            fkeys = [f["key"] for f in e["fields"]]
            rep = {x for x in fkeys if fkeys.count(x) > 1}
            if rep:
                if e["key"] in live_e:
                    cls.add("dupkey+dupfield")
                dupfield_keys.add(e["key"])
                if type(b) is not DuplicateFieldKeyBlock:
                    return (f"dupfield-not-flagged:{mode}", f"block {i}: {splitcheck.describe_block(b)}", f"DuplicateFieldKeyBlock for repeated {sorted(rep)!r}"), cls
                if set(b.duplicate_keys) != rep:
                    return (f"dupfield-keys:{mode}", repr(sorted(b.duplicate_keys)), repr(sorted(rep))), cls
                m = _entry_matches(b.ignore_error_block, e)
                if m:
                    return (f"dupfield-inner-entry:{mode}", m, f"every field occurrence in source order: {[(f['key'], f['value']) for f in e['fields']]!r}"), cls
                continue
            n = seen_count.get(("e", e["key"]), 0)
            seen_count[("e", e["key"])] = n + 1
            if e["key"] in live_e:
                if n >= 2:
                    cls.add("triple-collision")
                if e["key"] in dupfield_keys:
                    cls.add("duplicate-after-dupfield-entry")
                cls.add("entry-collision")
                if type(b) is not DuplicateBlockKeyBlock:
                    return (f"duplicate-entry-not-flagged:{mode}", f"block {i}: {splitcheck.describe_block(b)}", f"DuplicateBlockKeyBlock for key {e['key']!r}"), cls
                prev = live_e[e["key"]]
                if b.key != e["key"] or not (b.previous_block is prev or canon(b.previous_block) == canon(prev)):
                    return (f"duplicate-entry-wrapper:{mode}", f"key={b.key!r} previous={splitcheck.describe_block(b.previous_block)}", f"key={e['key']!r} previous={splitcheck.describe_block(prev)}"), cls
                m = _entry_matches(b.ignore_error_block, e)
                if m:
                    return (f"duplicate-entry-content:{mode}", m, f"the complete duplicate {[(f['key'], f['value']) for f in e['fields']]!r}"), cls
            else:
                if e["key"] in dupfield_keys:
                    cls.add("live-after-dupfield-entry")
                m = _entry_matches(b, e, values=(not mode.startswith("parse_string")))
                if m:
                    return (f"live-entry:{mode}", f"block {i}: {m}", repr(splitcheck._rec(e))), cls
                live_e[e["key"]] = b
        elif k == "string":
            if e["key"] in live_s:
                cls.add("string-collision")
                if type(b) is not DuplicateBlockKeyBlock:
                    return (f"duplicate-string-not-flagged:{mode}", f"block {i}: {splitcheck.describe_block(b)}", f"DuplicateBlockKeyBlock for key {e['key']!r}"), cls
                prev = live_s[e["key"]]
                inner = b.ignore_error_block
                if b.key != e["key"] or not (b.previous_block is prev or canon(b.previous_block) == canon(prev)):
                    return (f"duplicate-string-wrapper:{mode}", f"key={b.key!r} previous={splitcheck.describe_block(b.previous_block)}", f"previous={splitcheck.describe_block(prev)}"), cls
                if type(inner) is not String or inner.key != e["key"] or inner.value != e["value"]:
                    return (f"duplicate-string-content:{mode}", splitcheck.describe_block(inner), repr(splitcheck._rec(e))), cls
            else:
                if type(b) is not String or b.key != e["key"] or (not mode.startswith("parse_string") and b.value != e["value"]):
                    return (f"live-string:{mode}", splitcheck.describe_block(b), repr(splitcheck._rec(e))), cls
                live_s[e["key"]] = b
            if e["key"] in live_e or any(x["kind"] == "entry" and x["key"] == e["key"] for x in expected):
                cls.add("entry/string-same-name")
        else:
            m = splitcheck.block_matches(b, e)
            if m:
                return (f"other-block:{m}:{mode}", splitcheck.describe_block(b), repr(splitcheck._rec(e))), cls
    # registration: exactly the first registrable occurrences are live
    ed, sd = lib.entries_dict, lib.strings_dict
    if set(ed) != set(live_e) or any(ed[k] is not live_e[k] for k in ed):
        return (f"entries_dict:{mode}", repr({k: splitcheck.describe_block(v) for k, v in ed.items()}), repr({k: splitcheck.describe_block(v) for k, v in live_e.items()})), cls
    if set(sd) != set(live_s) or any(sd[k] is not live_s[k] for k in sd):
        return (f"strings_dict:{mode}", repr({k: splitcheck.describe_block(v) for k, v in sd.items()}), repr({k: splitcheck.describe_block(v) for k, v in live_s.items()})), cls
    return None, cls


def o_deriv(deriv):
    text, expected = bibgen.render(deriv)
    cls = set()
    # equivalent spellings of the default parse: nothing given / the documented default stack passed explicitly / an
    # empty library passed explicitly (which of the two extra spellings runs is picked by the length of the text)
    modes = ["splitter", "parse_string", "parse_string:explicit-default-stack" if len(text) % 2 else "parse_string:library=Library()"]
    for mode in modes:
        if mode == "splitter":
            lib = Splitter(text).split()
        elif mode == "parse_string":
            lib = bibtexparser.parse_string(text)
        elif mode == "parse_string:explicit-default-stack":
            lib = bibtexparser.parse_string(text, parse_stack=bibtexparser.middlewares.default_parse_stack())
        else:
            lib = bibtexparser.parse_string(text, library=Library())
        f, c = _check(lib, expected, mode)
        cls |= c
        if f:
            return (f, True, sorted(cls))
    # the same document handed over in two parts through the `library=` argument
    items = [i for i, it in enumerate(deriv) if it["k"] != "gap"]
    if len(items) >= 2:
        cut = items[len(items) // 2]
        t1, e1 = bibgen.render(deriv[:cut])
        t2, e2 = bibgen.render(deriv[cut:])
        if not (e1 and e2 and e1[-1]["kind"] == "icomment" and e2[0]["kind"] == "icomment"):
            lib = Splitter(t2).split(library=Splitter(t1).split())
            f, c = _check(lib, e1 + e2, "splitter+library")
            cls |= c | {"two-part-parse"}
            if f:
                return (f, True, sorted(cls))
            lib = bibtexparser.parse_string(t2, parse_stack=[], library=bibtexparser.parse_string(t1, parse_stack=[]))
            f, c = _check(lib, e1 + e2, "splitter+library")
            if f:
                return ((f[0].replace("splitter+library", "parse_string+library"), f[1], f[2]), True, sorted(cls))
            # ... and into a library that was filled by hand (model objects without source position)
            hand = [e for e in e1 if e["kind"] == "string" or (e["kind"] == "entry" and len({f["key"] for f in e["fields"]}) == len(e["fields"]))]
            if hand:
                for mode in ("splitter", "parse_string"):
                    built = Library([String(e["key"], e["value"]) if e["kind"] == "string" else Entry(e["type"], e["key"], [Field(f["key"], f["value"]) for f in e["fields"]]) for e in hand])
                    lib = Splitter(t2).split(library=built) if mode == "splitter" else bibtexparser.parse_string(t2, parse_stack=[], library=built)
                    f, c = _check(lib, hand + e2, "splitter+library")
                    cls |= c | {"parse-into-hand-built-library"}
                    if f:
                        return ((f[0].replace("splitter+library", mode + "+hand-built-library"), f[1], f[2]), True, sorted(cls))
    nontrivial = bool(cls & {"entry-collision", "string-collision"}) or any(
        e["kind"] == "entry" and len({f["key"] for f in e["fields"]}) < len(e["fields"]) for e in expected
    )
    return (None, nontrivial, sorted(cls))


SUBS = {"deriv": o_deriv}

GAP = {"k": "gap", "ws": "\n"}


def _fld(k, v):
    return {"wa": " ", "key": k, "wb": " ", "wc": " ", "value": v, "wd": ""}


def item_alphabet(pos):
    """Six item kinds of the exhaustive engine; values carry the position so that every occurrence is distinguishable."""
    v = "{v%d}" % pos
    return [
        {"k": "entry", "type": "article", "hws": "", "ws1": "", "key": "a", "ws2": "", "fields": [_fld("x", v)], "comma": False, "ws_end": ""},
        {"k": "entry", "type": "book", "hws": "", "ws1": "", "key": "b", "ws2": "", "fields": [_fld("x", v), _fld("y", "{w}")], "comma": True, "ws_end": ""},
        {"k": "entry", "type": "misc", "hws": "", "ws1": "", "key": "a", "ws2": "", "fields": [_fld("x", v), _fld("y", "1"), _fld("x", '"again"')], "comma": False, "ws_end": ""},
        {"k": "string", "kw": "string", "hws": "", "ws1": "", "key": "a", "ws2": " ", "ws3": " ", "value": '"s%d"' % pos, "ws4": ""},
        {"k": "string", "kw": "String", "hws": "", "ws1": "", "key": "b", "ws2": " ", "ws3": " ", "value": v, "ws4": ""},
        {"k": "comment", "kw": "comment", "hws": "", "body": "c%d" % pos},
        {"k": "entry", "type": "misc", "hws": "", "ws1": "", "key": "a", "ws2": "", "fields": [], "comma": pos % 2 == 0, "ws_end": ""},
    ]


def w_enum(acc, L, first):
    n = len(item_alphabet(0))
    for rest in itertools.product(range(n), repeat=max(0, L - 1)):
        idx = ([first] + list(rest)) if L else []
        deriv = []
        for pos, i in enumerate(idx):
            deriv.append(item_alphabet(pos)[i])
            deriv.append(GAP)
        acc.run("deriv", o_deriv, deriv, True)


def w_structured(acc):
    """Moderately long structures the short enumeration cannot reach: n occurrences of one key (n up to 14, entries,
    strings, interleaved with other keys), verbatim repetitions of a block on one line or on several lines, entries whose
    repeated field occurs for the k-th time / at index >= 5 / with identical values."""
    def ent(key, fields, typ="article"):
        return {"k": "entry", "type": typ, "hws": "", "ws1": "", "key": key, "ws2": "", "fields": [_fld(k, v) for k, v in fields], "comma": False, "ws_end": ""}

    def string(key, value):
        return {"k": "string", "kw": "string", "hws": "", "ws1": "", "key": key, "ws2": " ", "ws3": " ", "value": value, "ws4": ""}

    for gap in (" ", "\n", "", "\n\n"):
        g = {"k": "gap", "ws": gap}
        for n in range(2, 15):
            # verbatim copies and near-copies of one block
            acc.run("deriv", o_deriv, [x for _ in range(n) for x in (ent("k", [("t", "{x}")]), g)], True)
            acc.run("deriv", o_deriv, [x for i in range(n) for x in (ent("k", [("t", "{x%d}" % (i % 3))]), g)], True)
            acc.run("deriv", o_deriv, [x for _ in range(n) for x in (string("s", '"v"'), g)], True)
            acc.run("deriv", o_deriv, [x for i in range(n) for x in (string("s", '"v%d"' % i), g, ent("k%d" % (i % 2), [("t", "s")]), g)], True)
            acc.run("deriv", o_deriv, [x for i in range(n) for x in (ent("k", [("t", "{x}")], "book" if i % 2 else "article"), g, ent("other%d" % i, []), g)], True)
    for n in range(2, 12):
        for same_value in (True, False):
            # one entry repeating a field key n times; with other fields before, between and after
            rep = [("url", "{u}" if same_value else "{u%d}" % i) for i in range(n)]
            for fields in (rep, [("a", "1")] * 0 + [("title", "{T}")] + rep + [("year", "1999")], [x for r in rep for x in (r, ("f%d" % rep.index(r), "{v}"))],
                           [("f%d" % i, "{v}") for i in range(n)] + [("f0", "{again}")], [("f%d" % i, "{v}") for i in range(n)] + [("f%d" % (n - 1), "{v}")]):
                acc.run("deriv", o_deriv, [ent("k", fields), GAP, ent("k", [("t", "{second}")]), GAP, ent("k2", fields[:1]), GAP], True)
    acc.classes["structured"] += 1


def w_large(acc, n):
    acc.run("deriv", o_deriv, bibgen.large_document(n, dup_every=3), True)
    acc.run("deriv", o_deriv, bibgen.large_document(n, dup_every=0), True)
    acc.classes["large-document"] += 1


def w_random(acc, n, seed):
    s1 = bibgen.strategies(key_pool=["a", "b", "A"], string_keys=["a", "b", "s"], fkey_pool=["x", "y", "X", "title"], max_items=10)
    s2 = bibgen.strategies(key_pool=["k", "k", "k2"], string_keys=["s"], fkey_pool=None, max_items=10)
    harness.run_hyp(acc, "deriv", o_deriv, s1, n, seed)
    harness.run_hyp(acc, "deriv", o_deriv, s2, n // 2, seed + 1)


def run(chk):
    quick = chk.tier == "quick"
    L = 5 if quick else 6
    n = len(item_alphabet(0))
    tasks = []
    for k in range(0, L + 1):
        for first in (range(n) if k else [None]):
            tasks.append(("w_enum", (k, first)))
    tasks += [("w_large", (n,)) for n in (130, 300, 1100)]
    tasks.append(("w_structured", ()))
    n_rand = 16000 if quick else 300000
    shards = 16 if quick else 64
    for s in range(shards):
        tasks.append(("w_random", (n_rand // shards, harness.seed_for(chk.seed, PROP, s))))
    harness.pmap(chk.acc, MODNAME, tasks)
    chk.acc.exhaustive["item-sequences"] = f"every document of <= {L} items over 7 item kinds (entry a, entry b, entry a with a repeated field, string a, string b, comment, zero-field entry a)"
    chk.rule = (
        "inputs = grammar derivations whose entry keys, string keys and field keys come from pools of 2-4 names (case "
        "variants, names shared between entries and strings). Oracle (constructive, after Splitter.split() and after "
        "default parse_string): one block per source item; the first registrable occurrence of a key is live and is the "
        "object in entries_dict/strings_dict; each later one is a DuplicateBlockKeyBlock at its own position exposing the "
        "key, the live block and the complete duplicate (all fields, source order, verbatim values); an entry repeating a "
        "field key is a DuplicateFieldKeyBlock with exactly the repeated keys, every occurrence kept, not registered. "
        "Non-trivial: >= 1 collision of entry keys, string keys or field keys."
    )
    chk.required_classes = ["entry-collision", "string-collision", "triple-collision", "entry/string-same-name", "dupkey+dupfield", "live-after-dupfield-entry", "two-part-parse", "parse-into-hand-built-library"]
