"""C02 - well-formed BibTeX yields exactly the blocks, keys, fields and values written."""
import itertools

import bibtexparser
from bibtexparser.model import Entry, Field
from bibtexparser.splitter import Splitter

from .. import bibgen, harness, refparse, splitcheck, tokens

PROP = "C02"
MODNAME = __name__

NT_FEATURES = {"nested-braces", "quote-in-brace", "brace-in-quote", "quote-in-brace-in-quote", "escaped-delimiter", "delim-inside-braces",
               "concatenation", "multi-line-value", ">=3items/>=2kinds"}


def _compare(text, expected):
    lib = Splitter(text).split()
    f = splitcheck.compare_blocks(lib.blocks, expected, ":splitter")
    if f:
        return f
    lib2 = bibtexparser.parse_string(text, parse_stack=[])
    f = splitcheck.compare_blocks(lib2.blocks, expected, ":parse_string")
    # history independence: what a parse returned belongs to the caller; altering it must not leak into later parses
    for b in lib.blocks + lib2.blocks:
        if isinstance(b, Entry):
            b.fields.append(Field("altered-by-caller", "x"))
            b.parser_metadata["altered-by-caller"] = True
    return f


def o_deriv(deriv):
    text, expected = bibgen.render(deriv)
    feats = bibgen.features(deriv)
    ref = refparse.parse_document(text)
    if ref is None or refparse.strip_positions(ref) != refparse.strip_positions(expected):
        raise harness.HarnessError(f"generator and reference recogniser disagree on {text!r}:\n generator {refparse.strip_positions(expected)!r}\n recogniser {None if ref is None else refparse.strip_positions(ref)!r}")
    f = _compare(text, expected)
    return (f, bool(feats & NT_FEATURES), sorted(feats))


def o_text(text):
    expected = refparse.parse_document(text)
    if expected is None:
        return (None, False, ("rejected-by-recogniser",))
    f = _compare(text, expected)
    kinds = {e["kind"] for e in expected}
    nontrivial = len(expected) >= 1 and any(c in text for c in '{"#\\') and len(text) > 12
    return (f, nontrivial, ("accepted",) + tuple("kind:" + k for k in sorted(kinds)))


SUBS = {"deriv": o_deriv, "text": o_text}

FRAMES = {
    "F1": ("@a{k, f = ", ", g = {z}}\n"),
    "F1q": ('@a{k, f = "', '", g = {z}}\n'),
    "F1b": ("@a{k, f = {", "}, g = {z}}\n"),
    "F2": ("@string{s = ", "}\n@a{k}"),
    "F3": ("@comment{", "}\n@a{k}"),
    "F5": ("@preamble{", "} x @b{j,}"),
}

BLOCK_ALPHABET = [
    "@a{K, f = {v}}", "@a{K}", "@string{SK = \"s\" # x}", "@preamble{p {q} r}", "@comment{c, = \"}", "free text {", " ", "\n", "% c\n",
]


def w_frames(acc, frame, L, prefix):
    pre, post = FRAMES[frame]
    it = (pre + "".join(t) + post for t in tokens.seqs(tokens.SIGMA_F, L, prefix))
    harness.run_cases(acc, "text", o_text, it, True)


def w_blocks(acc, L, first):
    for rest in itertools.product(range(len(BLOCK_ALPHABET)), repeat=max(0, L - 1)):
        idx = ([first] + list(rest)) if L else []
        parts = []
        for n, i in enumerate(idx):
            parts.append(BLOCK_ALPHABET[i].replace("SK", "s%d" % n).replace("K", "k%d" % n))
        acc.run("text", o_text, "".join(parts), True)


def w_large(acc, n):
    acc.run("deriv", o_deriv, bibgen.large_document(n), True)
    acc.run("deriv", o_deriv, bibgen.large_document(min(n, 600), fields_per_entry=40, string_every=0), True)
    acc.classes["large-document"] += 1


def w_random(acc, n, seed):
    harness.run_hyp(acc, "deriv", o_deriv, bibgen.strategies(), n, seed)


def run(chk):
    quick = chk.tier == "quick"
    L = 5 if quick else 6
    tasks = []
    for fr in FRAMES:
        fl = L if fr in ("F1", "F2") else L - 1
        tasks += [("w_frames", (fr,) + t) for t in tokens.seq_tasks(tokens.SIGMA_F, fl, prefix_len=1 if fl <= 5 else 2)]
    bl = 5 if quick else 6
    for k in range(0, bl + 1):
        for first in (range(len(BLOCK_ALPHABET)) if k else [None]):
            tasks.append(("w_blocks", (k, first)))
    tasks += [("w_large", (n,)) for n in ((130, 300, 1100) if quick else (130, 300, 1100, 4200))]
    n_rand = 60000 if quick else 600000
    shards = 16 if quick else 64
    for s in range(shards):
        tasks.append(("w_random", (n_rand // shards, harness.seed_for(chk.seed, PROP, s))))
    harness.pmap(chk.acc, MODNAME, tasks)
    chk.acc.exhaustive["frames"] = f"every sequence of <= {L} (F1, F2) / <= {L - 1} (others) tokens of {tokens.SIGMA_F!r} inside the frames {FRAMES!r}, filtered by the reference recogniser"
    chk.acc.exhaustive["block-sequences"] = f"every sequence of <= {bl} items over the block-level alphabet {BLOCK_ALPHABET!r} (keys made unique per position)"
    chk.rule = (
        "inputs = documents of the dialect grammar (DESIGN.md 3.2). Engine R: Hypothesis derivations with constructive "
        "ground truth (0-12 items, brace depth <= 4, values of 1-4 pieces, every whitespace form, CRLF, blocks sharing a "
        "line, free text); engine E: token sequences inside value/string/comment/preamble frames and block-level "
        "sequences, kept when the independent reference recogniser accepts them (its parse is the expected structure). "
        "Oracle: Splitter.split() and parse_string(parse_stack=[]) return exactly the expected blocks (class, lower-cased "
        "type, key, ordered fields with verbatim values, string/preamble/comment text, up to surrounding whitespace), no "
        "failed block. Generator and recogniser must agree on every derivation (else harness error). Non-trivial: a "
        "tagged value feature or >= 3 items of >= 2 kinds (R); accepted text with brace/quote/concat/escape (E)."
    )
    chk.required_classes = ["accepted", "rejected-by-recogniser", "nested-braces", "quote-in-brace", "brace-in-quote", "escaped-delimiter",
                            "concatenation", "multi-line-value", "trailing-comma", "zero-fields", "crlf", "free-text", "space-before-brace"]
