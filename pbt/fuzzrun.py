"""Runs an atheris campaign (pbt/fuzz_target.py) and feeds its corpus and crashes through the plain oracle."""
import os
import re
import shutil
import subprocess
import sys
import tempfile

from . import harness


def run_atheris(acc, target, sub, oracle, runs, seed, dictionary, seeds, max_len=256, to_input=None):
    try:
        import atheris  # noqa: F401
    except Exception:
        acc.notes["fuzz-engine-unavailable"] += 1
        return
    work = tempfile.mkdtemp(prefix=f"{target.lower()}fuzz_")
    try:
        corpus = os.path.join(work, "corpus")
        os.makedirs(corpus)
        for i, s in enumerate(seeds):
            with open(os.path.join(corpus, "s%d" % i), "wb") as f:
                f.write(s.encode("utf-8"))
        dic = os.path.join(work, "dict")
        with open(dic, "w") as f:
            for t in dictionary:
                f.write('"' + "".join("\\x%02x" % b for b in t.encode()) + '"\n')
        script = os.path.join(harness.VERIF, "pbt", "fuzz_target.py")
        env = dict(os.environ, VERIF_REPO=harness.REPO, FUZZ_TARGET=target)
        p = subprocess.run(
            [sys.executable, "-B", script, corpus, f"-runs={runs}", f"-seed={seed % 2**31 or 1}", f"-dict={dic}", f"-max_len={max_len}",
             f"-artifact_prefix={work}/", "-timeout=60", "-print_final_stats=1"],
            capture_output=True, text=True, env=env, timeout=7200,
        )
        m = re.search(r"stat::number_of_executed_units:\s*(\d+)", p.stderr)
        acc.notes["fuzz-executions"] += int(m.group(1)) if m else 0
        arts = [f for f in os.listdir(work) if f.startswith(("crash-", "timeout-", "oom-"))]
        conv = to_input or (lambda t: t)
        for a in arts:
            data = open(os.path.join(work, a), "rb").read()
            acc.run(sub, oracle, conv(data.decode("utf-8", "replace")))
            acc.notes["fuzz-artifacts"] += 1
        for fn in sorted(os.listdir(corpus))[:5000]:
            data = open(os.path.join(corpus, fn), "rb").read()
            acc.run(sub, oracle, conv(data.decode("utf-8", "replace")))
        acc.classes["fuzz-corpus-size"] += len(os.listdir(corpus))
        if p.returncode != 0 and not arts:
            acc.notes["fuzz-engine-error"] += 1
    finally:
        shutil.rmtree(work, ignore_errors=True)
