"""JSON-encodable specs for Library objects, formats and middleware configurations (DESIGN 3.4).

Block spec (dict, key "t"):
  entry    {"t","type","key","fields":[[key, value, line]],"line","raw","meta":{...}}
  string   {"t","key","value","line","raw","meta"}
  preamble {"t","value","line","raw"}      ecomment / icomment {"t","comment","line","raw"}
  failed   {"t","raw","line"}               dupfield {"t","entry": entry spec, "keys":[...]}
  mwerror  {"t","entry": entry spec, "err": "invalidname"|"partial"}
Values: str | int | list of values | {"np": {"first":[..],"von":[..],"last":[..],"jr":[..]}}
Blocks with equal keys become DuplicateBlockKeyBlock when the Library is built (as in the real flow).
"""
import bibtexparser
from bibtexparser.exceptions import PartialMiddlewareException
from bibtexparser.library import Library
from bibtexparser.middlewares.names import InvalidNameError, NameParts
from bibtexparser.model import (
    DuplicateFieldKeyBlock,
    Entry,
    ExplicitComment,
    Field,
    ImplicitComment,
    MiddlewareErrorBlock,
    ParsingFailedBlock,
    Preamble,
    String,
)
from bibtexparser.writer import BibtexFormat


def build_value(v):
    if isinstance(v, dict) and "np" in v:
        d = v["np"]
        return NameParts(first=list(d.get("first", [])), von=list(d.get("von", [])), last=list(d.get("last", [])), jr=list(d.get("jr", [])))
    if isinstance(v, list):
        return [build_value(x) for x in v]
    return v


def build_entry(s):
    e = Entry(s["type"], s["key"], [Field(k, build_value(v), ln) for k, v, ln in s["fields"]], s.get("line"), s.get("raw"))
    for k, v in (s.get("meta") or {}).items():
        e.set_parser_metadata(k, v)
    return e


def build_block(s):
    t = s["t"]
    if t == "entry":
        return build_entry(s)
    if t == "string":
        b = String(s["key"], build_value(s["value"]), s.get("line"), s.get("raw"))
        for k, v in (s.get("meta") or {}).items():
            b.set_parser_metadata(k, v)
        return b
    if t == "preamble":
        return Preamble(s["value"], s.get("line"), s.get("raw"))
    if t == "ecomment":
        return ExplicitComment(s["comment"], s.get("line"), s.get("raw"))
    if t == "icomment":
        return ImplicitComment(s["comment"], s.get("line"), s.get("raw"))
    if t == "failed":
        return ParsingFailedBlock(error=Exception("parse error"), start_line=s.get("line"), raw=s["raw"])
    if t == "dupfield":
        return DuplicateFieldKeyBlock(set(s["keys"]), build_entry(s["entry"]))
    if t == "mwerror":
        e = build_entry(s["entry"])
        if s.get("err") == "partial":
            return MiddlewareErrorBlock(e, PartialMiddlewareException(["conversion failed"]))
        return MiddlewareErrorBlock(e, InvalidNameError("A, B, C, D", "Too many commas"))
    raise ValueError(f"unknown block spec {s!r}")


def build_library(specs):
    return Library([build_block(s) for s in specs])


def build_format(f):
    fmt = BibtexFormat()
    if f is None:
        return fmt
    if "indent" in f:
        fmt.indent = f["indent"]
    if "value_column" in f:
        fmt.value_column = f["value_column"]
    if "trailing_comma" in f:
        fmt.trailing_comma = f["trailing_comma"]
    if "block_separator" in f:
        fmt.block_separator = f["block_separator"]
    if f.get("parsing_failed_comment") is not None:
        fmt.parsing_failed_comment = f["parsing_failed_comment"]
    return fmt


FORMAT_ATTRS = ("indent", "value_column", "trailing_comma", "block_separator", "parsing_failed_comment")


def format_state(fmt):
    return tuple((a, getattr(fmt, a)) for a in FORMAT_ATTRS)


# ---------------------------------------------------------------------------------------------
# Hypothesis strategies producing specs
# ---------------------------------------------------------------------------------------------


def st_format(separators=None, comments=True):
    from hypothesis import strategies as st

    seps = separators or ["", "\n", "\n\n", "\n-----\n", " % sep % ", " ", "\n\n\n"]
    d = {
        "indent": st.one_of(st.sampled_from(["\t", "", " ", "  ", "    "]), st.text(alphabet=" \t-", max_size=4)),
        "value_column": st.one_of(st.integers(0, 40), st.just("auto"), st.just("auto")),
        "trailing_comma": st.booleans(),
        "block_separator": st.sampled_from(seps),
    }
    if comments:
        d["parsing_failed_comment"] = st.sampled_from([None, None, "% FAILED ({n} lines)", "% failed", "%% {n}{n}"])
    return st.fixed_dictionaries(d)


def st_writer_library(max_blocks=8):
    """Libraries whose values are strings as the writer needs them (already enclosed)."""
    from hypothesis import strategies as st

    key = st.one_of(st.sampled_from(["k", "k2", "Smith2020", "a:b", "é"]), st.text(alphabet="abcXYZ019_:-", min_size=1, max_size=8))
    fkey = st.one_of(st.sampled_from(["a", "ab", "title", "author", "year", "x"]), st.text(alphabet="abcdefghijklmnopqrstuvwxyz", min_size=1, max_size=30))
    val = st.one_of(
        st.sampled_from(["{v}", '"v"', "2020", "s # {x}", "{}", "{multi\nline value}", "{a {nested} b}", "{é ü}"]),
        st.text(alphabet="abc {}\"#,=\n", max_size=12),
    )
    raw = st.one_of(st.sampled_from(["@a{k,", "@a{k, x = {y}\n@", "line1\nline2\nline3", "@comment{x", "x"]), st.text(alphabet="ab@{},=\n ", min_size=1, max_size=20).map(lambda s: s.strip("\n") or "r"))
    line = st.integers(0, 50)
    fields = st.lists(st.tuples(fkey, val, line).map(list), max_size=6)
    entry = st.fixed_dictionaries({"t": st.just("entry"), "type": st.sampled_from(["article", "book", "misc", "Article"]), "key": key, "fields": fields, "line": line, "raw": raw})
    string = st.fixed_dictionaries({"t": st.just("string"), "key": key, "value": val, "line": line, "raw": raw})
    pre = st.fixed_dictionaries({"t": st.just("preamble"), "value": val, "line": line, "raw": raw})
    ec = st.fixed_dictionaries({"t": st.just("ecomment"), "comment": st.sampled_from(["c", "a comment", "multi\nline", "", "ends in \\", "x \\\\"]), "line": line, "raw": raw})
    ic = st.fixed_dictionaries({"t": st.just("icomment"), "comment": st.sampled_from(["% c", "free text", "two\nlines"]), "line": line, "raw": raw})
    failed = st.fixed_dictionaries({"t": st.just("failed"), "raw": raw, "line": line})
    dupf = st.fixed_dictionaries({"t": st.just("dupfield"), "entry": entry, "keys": st.just(["a"])})
    mwe = st.fixed_dictionaries({"t": st.just("mwerror"), "entry": entry, "err": st.sampled_from(["invalidname", "partial"])})
    block = st.one_of(entry, entry, entry, string, pre, ec, ic, failed, dupf, mwe)
    return st.lists(block, max_size=max_blocks)
