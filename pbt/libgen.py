"""JSON-encodable specs for Library objects, formats and middleware configurations (DESIGN 3.4).

Block spec (dict, key "t"):
  entry    {"t","type","key","fields":[[key, value, line]],"line","raw","meta":{...}}
  string   {"t","key","value","line","raw","meta"}
  preamble {"t","value","line","raw"}      ecomment / icomment {"t","comment","line","raw"}
  failed   {"t","raw","line"}               dupfield {"t","entry": entry spec, "keys":[...]}
  mwerror  {"t","entry": entry spec, "err": "invalidname"|"partial"}
Values: str | int | list of values | {"np": {"first":[..],"von":[..],"last":[..],"jr":[..]}}
Blocks with equal keys become DuplicateBlockKeyBlock when the Library is built (as in the real flow).
"""
import bibtexparser
from bibtexparser.exceptions import PartialMiddlewareException
from bibtexparser.library import Library
from bibtexparser.middlewares.names import InvalidNameError, NameParts
from bibtexparser.model import (
    DuplicateFieldKeyBlock,
    Entry,
    ExplicitComment,
    Field,
    ImplicitComment,
    MiddlewareErrorBlock,
    ParsingFailedBlock,
    Preamble,
    String,
)
from bibtexparser.writer import BibtexFormat


def build_value(v):
    if isinstance(v, dict) and "np" in v:
        d = v["np"]
        return NameParts(first=list(d.get("first", [])), von=list(d.get("von", [])), last=list(d.get("last", [])), jr=list(d.get("jr", [])))
    if isinstance(v, list):
        return [build_value(x) for x in v]
    return v


def build_fields(specs):
    """[key, value, line] builds a new Field; {"same": n} puts an earlier Field object of this entry in again
    (one object held twice: position, not identity or equality, decides what the writer and the views do)."""
    out = []
    for fs in specs:
        if isinstance(fs, dict):
            if out:
                out.append(out[fs["same"] % len(out)])
            continue
        k, v, ln = fs
        out.append(Field(k, build_value(v), ln))
    return out


def build_entry(s):
    e = Entry(s["type"], s["key"], build_fields(s["fields"]), s.get("line"), s.get("raw"))
    for k, v in (s.get("meta") or {}).items():
        e.set_parser_metadata(k, v)
    return e


class SubEntry(Entry):
    """An application-defined subclass of a model class: is-a Entry for everything the library does."""


class SubComment(ExplicitComment):
    pass


class SubFailed(ParsingFailedBlock):
    pass


_SUBCLASS = {Entry: SubEntry, ExplicitComment: SubComment, ParsingFailedBlock: SubFailed}


def build_block(s):
    b = _build_block(s)
    if s.get("sub") and type(b) in _SUBCLASS:
        b.__class__ = _SUBCLASS[type(b)]
    return b


def _build_block(s):
    t = s["t"]
    if t == "entry":
        return build_entry(s)
    if t == "string":
        b = String(s["key"], build_value(s["value"]), s.get("line"), s.get("raw"))
        for k, v in (s.get("meta") or {}).items():
            b.set_parser_metadata(k, v)
        return b
    if t == "preamble":
        return Preamble(s["value"], s.get("line"), s.get("raw"))
    if t == "ecomment":
        return ExplicitComment(s["comment"], s.get("line"), s.get("raw"))
    if t == "icomment":
        return ImplicitComment(s["comment"], s.get("line"), s.get("raw"))
    if t == "failed":
        return ParsingFailedBlock(error=Exception("parse error"), start_line=s.get("line"), raw=s["raw"])
    if t == "dupfield":
        return DuplicateFieldKeyBlock(set(s["keys"]), build_entry(s["entry"]))
    if t == "mwerror":
        e = build_entry(s["entry"])
        if s.get("err") == "partial":
            return MiddlewareErrorBlock(e, PartialMiddlewareException(["conversion failed"]))
        return MiddlewareErrorBlock(e, InvalidNameError("A, B, C, D", "Too many commas"))
    raise ValueError(f"unknown block spec {s!r}")


def build_library(specs):
    """{"t": "same", "of": n} adds an earlier block *object* again (key-less blocks; for entries and strings an
    equal twin is built instead, which the library turns into a duplicate-key block as in the real flow)."""
    blocks, built = [], []
    for s in specs:
        if s["t"] == "same":
            if not blocks:
                continue
            j = s["of"] % len(blocks)
            blocks.append(blocks[j] if built[j]["t"] not in ("entry", "string") else build_block(built[j]))
            built.append(built[j])
            continue
        blocks.append(build_block(s))
        built.append(s)
    return Library(blocks)


def build_format(f):
    fmt = BibtexFormat()
    if f is None:
        return fmt
    if "indent" in f:
        fmt.indent = f["indent"]
    if "value_column" in f:
        fmt.value_column = f["value_column"]
    if "trailing_comma" in f:
        fmt.trailing_comma = f["trailing_comma"]
    if "block_separator" in f:
        fmt.block_separator = f["block_separator"]
    if f.get("parsing_failed_comment") is not None:
        fmt.parsing_failed_comment = f["parsing_failed_comment"]
    return fmt


FORMAT_ATTRS = ("indent", "value_column", "trailing_comma", "block_separator", "parsing_failed_comment")


def format_state(fmt):
    return tuple((a, getattr(fmt, a)) for a in FORMAT_ATTRS)


# ---------------------------------------------------------------------------------------------
# Hypothesis strategies producing specs
# ---------------------------------------------------------------------------------------------


def st_format(separators=None, comments=True):
    from hypothesis import strategies as st

    seps = separators or ["", "\n", "\n\n", "\n-----\n", " % sep % ", " ", "\n\n\n"]
    d = {
        "indent": st.one_of(st.sampled_from(["\t", "", " ", "  ", "    "]), st.text(alphabet=" \t-", max_size=4)),
        "value_column": st.one_of(st.integers(0, 40), st.integers(0, 40), st.just("auto"), st.just("auto"), st.sampled_from([64, 65, 70, 100, 129, 200])),
        "trailing_comma": st.booleans(),
        "block_separator": st.sampled_from(seps),
    }
    if comments:
        d["parsing_failed_comment"] = st.sampled_from([None, None, "% FAILED ({n} lines)", "% failed", "%% {n}{n}", "", " "])
    return st.fixed_dictionaries(d)


def st_writer_library(max_blocks=8):
    """Libraries whose values are strings as the writer needs them (already enclosed)."""
    from hypothesis import strategies as st

    key = st.one_of(st.sampled_from(["k", "k2", "Smith2020", "a:b", "é"]), st.text(alphabet="abcXYZ019_:-", min_size=1, max_size=8))
    # (a few very long keys: the padding of the short ones then exceeds any fixed buffer, also under 'auto')
    fkey = st.one_of(st.sampled_from(["a", "ab", "title", "author", "year", "x"]), st.text(alphabet="abcdefghijklmnopqrstuvwxyz", min_size=1, max_size=30),
                     st.sampled_from(["k" * 66, "averyveryverylongfieldkey" * 4, "z" * 130]))
    val = st.one_of(
        st.sampled_from(["{v}", '"v"', "2020", "s # {x}", "{}", "{multi\nline value}", "{a {nested} b}", "{é ü}"]),
        st.text(alphabet="abc {}\"#,=\n", max_size=12),
    )
    raw = st.one_of(st.sampled_from(["@a{k,", "@a{k, x = {y}\n@", "line1\nline2\nline3", "@comment{x", "x"]), st.text(alphabet="ab@{},=\n ", min_size=1, max_size=20).map(lambda s: s.strip("\n") or "r"),
                    # verbatim emission also for raws whose line count is ambiguous (CRLF, trailing / exotic line breaks, empty)
                    st.sampled_from(["@a{k,\r\n x = {y}\r\n", "@a{k,\n", "", "\n", "a\x0cb", "a\x85b\u2028c", "@a{k, x\r y", "two\n\n"]),
                    st.text(alphabet="ab@{},=\n\r\x0c ", max_size=12))
    line = st.integers(0, 50)
    fields = st.lists(st.tuples(fkey, val, line).map(list), max_size=6)
    entry = st.fixed_dictionaries({"t": st.just("entry"), "type": st.sampled_from(["article", "book", "misc", "Article"]), "key": key, "fields": fields, "line": line, "raw": raw})
    string = st.fixed_dictionaries({"t": st.just("string"), "key": key, "value": val, "line": line, "raw": raw})
    pre = st.fixed_dictionaries({"t": st.just("preamble"), "value": val, "line": line, "raw": raw})
    ec = st.fixed_dictionaries({"t": st.just("ecomment"), "comment": st.sampled_from(["c", "a comment", "multi\nline", "", "ends in \\", "x \\\\"]), "line": line, "raw": raw})
    # free-text comments that read like the writer's own warning lines (what parsing a written file with failed blocks yields)
    ic = st.fixed_dictionaries({"t": st.just("icomment"), "comment": st.sampled_from(["% c", "free text", "two\nlines", "% WARNING Parsing failed for the following 1 lines.",
                                "% WARNING Parsing failed for the following 2 lines.", "% WARNING Parsing failed for the following 3 lines.", "% FAILED (1 lines)", "% FAILED (2 lines)", "% failed", "%% 11", "%% 22"]), "line": line, "raw": raw})
    failed = st.fixed_dictionaries({"t": st.just("failed"), "raw": raw, "line": line})
    dupf = st.fixed_dictionaries({"t": st.just("dupfield"), "entry": entry, "keys": st.just(["a"])})
    mwe = st.fixed_dictionaries({"t": st.just("mwerror"), "entry": entry, "err": st.sampled_from(["invalidname", "partial"])})
    block = st.one_of(entry, entry, entry, string, pre, ec, ic, failed, dupf, mwe)

    def with_repeats(args):
        blocks, reps, frep = args
        blocks = [dict(b) for b in blocks]
        for pos, of in reps:
            if blocks:
                blocks.insert(1 + pos % len(blocks), {"t": "same", "of": of})
        for bi, of in frep:
            ents = [b for b in blocks if b["t"] == "entry" and b["fields"]]
            if ents:
                e = ents[bi % len(ents)]
                e["fields"] = list(e["fields"]) + [{"same": of}]
            # ... and some blocks are instances of application-defined subclasses of the model classes
            if blocks and blocks[(bi + of) % len(blocks)]["t"] in ("entry", "ecomment", "failed"):
                blocks[(bi + of) % len(blocks)]["sub"] = True
        return blocks

    pairs = st.lists(st.tuples(st.integers(0, 9), st.integers(0, 9)), max_size=2)
    return st.tuples(st.lists(block, max_size=max_blocks), st.one_of(st.just([]), st.just([]), pairs), st.one_of(st.just([]), st.just([]), st.just([]), pairs)).map(with_repeats)


# ---------------------------------------------------------------------------------------------
# Middleware configurations (DESIGN 3.4): JSON specs {"mw": name, **options}
# ---------------------------------------------------------------------------------------------

MARKER = "RAISEME"


class _RaisingEncoder:
    """Custom encoder object whose conversion raises on values containing MARKER."""

    def unicode_to_latex(self, s):
        if MARKER in s:
            raise RuntimeError("encoder refuses " + MARKER)
        return s.replace("é", "\\'e")


class _RaisingDecoder:
    def latex_to_text(self, s):
        if MARKER in s:
            raise RuntimeError("decoder refuses " + MARKER)
        return s.replace("\\'e", "é")


def all_middleware_specs():
    import itertools

    specs = [{"mw": "RemoveEnclosing"}, {"mw": "ResolveStringReferences"}, {"mw": "NormalizeFieldKeys"},
             {"mw": "MonthInt"}, {"mw": "MonthAbbreviation"}, {"mw": "MonthLongString"}, {"mw": "SortFieldsAlphabetically"}]
    for r, e, d in itertools.product((True, False), (True, False), ("{", '"')):
        specs.append({"mw": "AddEnclosing", "reuse": r, "enclose_integers": e, "default": d})
    specs += [{"mw": "LatexEncoding"}, {"mw": "LatexEncoding", "keep_math": False}, {"mw": "LatexEncoding", "enclose_urls": False},
              {"mw": "LatexEncoding", "keep_math": False, "enclose_urls": False}, {"mw": "LatexEncoding", "custom": True}]
    specs += [{"mw": "LatexDecoding"}, {"mw": "LatexDecoding", "keep_braced_groups": True}, {"mw": "LatexDecoding", "keep_math_mode": False},
              {"mw": "LatexDecoding", "custom": True}]
    for nf in (None, ["author"]):
        for name in ("SeparateCoAuthors", "MergeCoAuthors", "SplitNameParts"):
            specs.append({"mw": name, "name_fields": nf})
        for style in ("last", "first"):
            specs.append({"mw": "MergeNameParts", "style": style, "name_fields": nf})
    five = ["String", "Preamble", "Entry", "ImplicitComment", "ExplicitComment"]
    for order in (None, [], ["Entry"], ["ExplicitComment", "Entry", "String"], five[::-1]):
        for pres in (True, False):
            specs.append({"mw": "SortBlocks", "order": order, "preserve": pres})
    for order, cs in ((["title", "author"], False), (["Author", "year"], True), ([], False)):
        specs.append({"mw": "SortFieldsCustom", "order": order, "case_sensitive": cs})
    return specs


# documented defaults of the shipped middlewares (signatures / docstrings): leaving an option out, passing its default
# explicitly, and passing arguments by position are spellings of the same request
MW_DEFAULTS = {
    "allow_inplace_modification": True,
    "case_sensitive": False,
    "name_fields": ("author", "editor", "translator"),
    "style": "last",
    "keep_math": True,
    "enclose_urls": True,
    "keep_braced_groups": False,
    "keep_math_mode": True,
    "preserve_comments_on_top": True,
}
MW_POSITIONAL = {
    "SortFieldsCustomMiddleware": ("order", "case_sensitive", "allow_inplace_modification"),
    "AddEnclosingMiddleware": ("reuse_previous_enclosing", "enclose_integers", "default_enclosing", "allow_inplace_modification"),
    "SeparateCoAuthors": ("allow_inplace_modification", "name_fields"),
    "MergeCoAuthors": ("allow_inplace_modification", "name_fields"),
    "SplitNameParts": ("allow_inplace_modification", "name_fields"),
    "MergeNameParts": ("style", "allow_inplace_modification", "name_fields"),
    "RemoveEnclosingMiddleware": ("allow_inplace_modification",),
    "NormalizeFieldKeys": ("allow_inplace_modification",),
    "MonthIntMiddleware": ("allow_inplace_modification",),
    "SortBlocksByTypeAndKeyMiddleware": ("block_type_order", "preserve_comments_on_top"),
}
MW_OPTIONAL = {
    "SortFieldsCustomMiddleware": ("case_sensitive",),
    "SeparateCoAuthors": ("name_fields",), "MergeCoAuthors": ("name_fields",), "SplitNameParts": ("name_fields",),
    "MergeNameParts": ("name_fields", "style"),
    "LatexEncodingMiddleware": ("keep_math", "enclose_urls"),
    "LatexDecodingMiddleware": ("keep_braced_groups", "keep_math_mode"),
    "SortBlocksByTypeAndKeyMiddleware": ("preserve_comments_on_top",),
}


def construct(cls, kw, key):
    """Build cls(**kw) in one of the equivalent spellings, picked by a hash of `key`: as given; options equal to their
    documented default left out; documented defaults of omitted options passed explicitly; leading arguments by position."""
    import zlib

    h = zlib.crc32(repr((cls.__name__, key)).encode()) % 4
    kw = dict(kw)
    custom = "encoder" in kw or "decoder" in kw
    if h == 1:
        kw = {k: v for k, v in kw.items() if not (k in MW_DEFAULTS and v == MW_DEFAULTS[k] and type(v) is type(MW_DEFAULTS[k]))}
    elif h == 2 and not custom:
        for k in MW_OPTIONAL.get(cls.__name__, ()):
            kw.setdefault(k, MW_DEFAULTS[k])
        if cls.__name__ != "SortBlocksByTypeAndKeyMiddleware":
            kw.setdefault("allow_inplace_modification", True)
        elif "block_type_order" not in kw:
            from bibtexparser.middlewares.sorting_blocks import DEFAULT_BLOCK_TYPE_ORDER

            kw["block_type_order"] = DEFAULT_BLOCK_TYPE_ORDER
    elif h == 3 and cls.__name__ in MW_POSITIONAL:
        args = []
        for k in MW_POSITIONAL[cls.__name__]:
            if k not in kw:
                break
            args.append(kw.pop(k))
        return cls(*args, **kw)
    return cls(**kw)


def make_middleware(spec, inplace=False):
    import bibtexparser.middlewares as m
    from bibtexparser import model

    name = spec["mw"]
    key = (sorted((k, repr(v)) for k, v in spec.items()), inplace)
    kw = {"allow_inplace_modification": inplace}
    if name == "RemoveEnclosing":
        return construct(m.RemoveEnclosingMiddleware, kw, key)
    if name == "AddEnclosing":
        return construct(m.AddEnclosingMiddleware, dict(kw, reuse_previous_enclosing=spec["reuse"], enclose_integers=spec["enclose_integers"], default_enclosing=spec["default"]), key)
    if name == "ResolveStringReferences":
        return construct(m.ResolveStringReferencesMiddleware, kw, key)
    if name == "NormalizeFieldKeys":
        return construct(m.NormalizeFieldKeys, kw, key)
    if name == "MonthInt":
        return construct(m.MonthIntMiddleware, kw, key)
    if name == "MonthAbbreviation":
        return construct(m.MonthAbbreviationMiddleware, kw, key)
    if name == "MonthLongString":
        return construct(m.MonthLongStringMiddleware, kw, key)
    if name == "SortFieldsAlphabetically":
        return construct(m.SortFieldsAlphabeticallyMiddleware, kw, key)
    if name == "SortFieldsCustom":
        return construct(m.SortFieldsCustomMiddleware, dict(kw, order=tuple(spec["order"]), case_sensitive=spec["case_sensitive"]), key)
    if name == "LatexEncoding":
        if spec.get("custom"):
            return construct(m.LatexEncodingMiddleware, dict(kw, encoder=_RaisingEncoder()), key)
        opts = {k: spec[k] for k in ("keep_math", "enclose_urls") if k in spec}
        return construct(m.LatexEncodingMiddleware, dict(kw, **opts), key)
    if name == "LatexDecoding":
        if spec.get("custom"):
            return construct(m.LatexDecodingMiddleware, dict(kw, decoder=_RaisingDecoder()), key)
        opts = {k: spec[k] for k in ("keep_braced_groups", "keep_math_mode") if k in spec}
        return construct(m.LatexDecodingMiddleware, dict(kw, **opts), key)
    if name in ("SeparateCoAuthors", "MergeCoAuthors", "SplitNameParts"):
        cls = getattr(m, name)
        if spec.get("name_fields") is not None:
            kw["name_fields"] = tuple(spec["name_fields"])
        return construct(cls, kw, key)
    if name == "MergeNameParts":
        if spec.get("name_fields") is not None:
            kw["name_fields"] = tuple(spec["name_fields"])
        return construct(m.MergeNameParts, dict(kw, style=spec["style"]), key)
    if name == "SortBlocks":
        types = {"String": model.String, "Preamble": model.Preamble, "Entry": model.Entry, "ImplicitComment": model.ImplicitComment,
                 "ExplicitComment": model.ExplicitComment}
        kw2 = {"preserve_comments_on_top": spec["preserve"]}
        if spec.get("order") is not None:
            kw2["block_type_order"] = tuple(types[t] for t in spec["order"])
        return construct(m.SortBlocksByTypeAndKeyMiddleware, kw2, key)
    raise ValueError(f"unknown middleware spec {spec!r}")


NAME_KEYS = ("author", "editor", "translator")


def name_field_types(lib):
    """Type state of the name fields of the live entries: key -> 'str' | 'list[str]' | 'list[NameParts]' | 'mixed'."""
    from bibtexparser.middlewares.names import NameParts
    from bibtexparser.model import Entry

    state = {}
    for b in lib.blocks:
        if type(b) is not Entry:
            continue
        for f in b.fields:
            if f.key in NAME_KEYS:
                v = f.value
                if isinstance(v, str):
                    t = "str"
                elif isinstance(v, list) and all(isinstance(x, str) for x in v):
                    t = "list[str]"
                elif isinstance(v, list) and all(isinstance(x, NameParts) for x in v):
                    t = "list[NameParts]" if v else "list[str]"
                else:
                    t = "mixed"
                if state.get(f.key, t) != t:
                    t = "mixed"
                state[f.key] = t
    return state


def stage_compatible(spec, lib):
    """True if the library's value types are what the middleware documents as its input."""
    from bibtexparser.model import Entry

    name = spec["mw"]
    st_ = name_field_types(lib)
    nf = tuple(spec.get("name_fields") or NAME_KEYS)
    relevant = [st_[k] for k in nf if k in st_]
    all_str = all(isinstance(f.value, str) for b in lib.blocks if type(b) is Entry for f in b.fields)
    if name == "SeparateCoAuthors":
        return all(t == "str" for t in relevant)
    if name == "SplitNameParts":
        return all(t == "list[str]" for t in relevant)
    if name == "MergeNameParts":
        return all(t == "list[NameParts]" for t in relevant)
    if name == "MergeCoAuthors":
        return all(t in ("str", "list[str]") for t in relevant)
    if name in ("RemoveEnclosing",):
        return all_str
    if name == "AddEnclosing":
        return all_str or spec["enclose_integers"] or True
    return True


# ---------------------------------------------------------------------------------------------
# History independence of middleware instances: an instance that has already transformed another
# library must behave like a fresh one (stacks are routinely reused for many files).
# ---------------------------------------------------------------------------------------------


def decoy_library():
    return Library([
        String("decoy", '"Decoy Value"', 0, "@string{decoy = ...}"),
        String("s", '"decoy s"', 1, "@string{s = ...}"),
        Entry("article", "decoy1", [Field("author", "Decoy One and Zed, Y.", 3), Field("title", "{Decoy \\'e $x$}", 4), Field("month", "feb", 5),
                                    Field("year", "1066", 6), Field("Title", "s", 7), Field("z", "decoy", 8), Field("a", '"q"', 9)], 2, "@article{decoy1,...}"),
        ExplicitComment("decoy comment", 10, "@comment{decoy comment}"),
        Entry("book", "decoy2", [Field("month", 11, 12), Field("editor", "X", 13)], 11, "@book{decoy2,...}"),
        ImplicitComment("% decoy", 14, "% decoy"),
        Preamble("decoy", 15, "@preamble{decoy}"),
    ])


def preuse(mw):
    """Let the middleware instance transform an unrelated library first (errors ignored)."""
    try:
        mw.transform(decoy_library())
    except Exception:
        pass
    return mw


def maybe_preuse(mw, key, same=None):
    """Deterministically pre-use the instance for part of the cases (key: any JSON-able case identity): on an
    unrelated decoy library, or - for copy-mode instances, which must not touch their input - on the very library
    (`same`) it is about to transform (a second application of one instance to the same objects must give the
    same result as the first)."""
    import zlib

    c = zlib.crc32(repr(key).encode())
    h = c % 5
    if h == 0:
        return preuse(mw)
    if h == 1 and same is not None and not getattr(mw, "allow_inplace_modification", True):
        preuse_on_edited(mw, same)
    if h == 2 and same is not None:
        preuse_on_variant(mw, same, c // 5)
    if h == 3 and same is not None and getattr(mw, "allow_inplace_modification", False):
        prior_run_then_restore(mw, same)
    return mw


def prior_run_then_restore(mw, lib):
    """transform -> edit -> transform: an in-place instance first processes the very library it is about to
    process; then every entry and string gets its content back (field list, keys, values; metadata entries that
    existed before keep their old value) while metadata *added* by the run stays, as it would after a user edit.
    The result of the next run must be a function of the content the blocks have now."""
    import copy

    saved = []
    for b in lib.blocks:
        if type(b) is Entry:
            saved.append((b, list(b.fields), [(f, f.key, f.value, copy.deepcopy(f.value)) for f in b.fields], copy.deepcopy(b.parser_metadata), b.key, b.entry_type))
        elif type(b) is String:
            saved.append((b, None, (b.key, b.value), copy.deepcopy(b.parser_metadata), None, None))
    try:
        mw.transform(lib)
    except Exception:
        pass
    for b, fields, old, meta, key, etype in saved:
        if fields is None:
            b.key, b.value = old
        else:
            b.fields = fields
            b.key, b.entry_type = key, etype
            for f, k, v, vcopy in old:
                f.key = k
                # the value object itself unless the run edited it in place (lists, name parts): then an untouched copy
                try:
                    untouched = type(v) is type(vcopy) and v == vcopy
                except Exception:
                    untouched = False
                f.value = v if untouched else vcopy
        for k, v in meta.items():
            b.parser_metadata[k] = v


_VARIANTS = (str.swapcase, str.upper, str.lower, lambda v: v + " ", lambda v: " " + v, lambda v: v.title(), lambda v: v.strip("{}\""))


def preuse_on_variant(mw, lib, pick):
    """Let the instance first transform an independent deep copy of `lib` whose text values are *variants* of the
    real ones (other letter case, a surrounding blank, enclosing dropped): whatever an instance remembers under a
    normalised form of a value must not leak into the result for a different value with the same normal form."""
    import copy

    try:
        var = copy.deepcopy(lib)
    except Exception:
        return
    f = _VARIANTS[pick % len(_VARIANTS)]

    def conv(v):
        if isinstance(v, str):
            return f(v)
        if isinstance(v, list):
            return [conv(x) for x in v]
        return v

    for b in var.blocks:
        if type(b) is Entry:
            for fl in b.fields:
                fl.value = conv(fl.value)
        elif type(b) is String:
            b.value = conv(b.value)
    try:
        mw.transform(var)
    except Exception:
        pass


def preuse_on_edited(mw, lib):
    """Apply a copy-mode instance to `lib` while its entries/strings hold other content (fields reversed, values
    altered), then put the original content back: what the instance returns next must reflect the current content."""
    saved = []
    for b in lib.blocks:
        if type(b) is Entry:
            saved.append((b, b.fields, [(f, f.key, f.value) for f in b.fields]))
            for f in b.fields:
                if isinstance(f.value, str):
                    f.value = f.value + " (before edit)"
            b.fields = list(reversed(b.fields)) + [Field("addedbeforeedit", "{x}", 0)]
        elif type(b) is String and isinstance(b.value, str):
            saved.append((b, None, b.value))
            b.value = b.value + " (before edit)"
    try:
        mw.transform(lib)
    except Exception:
        pass
    finally:
        for b, fields, old in saved:
            if fields is None:
                b.value = old
            else:
                b.fields = fields
                for f, k, v in old:
                    f.key = k
                    f.value = v
