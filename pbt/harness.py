"""Common machinery of the property checks (DESIGN.md section 2).

* `Acc`       per-process accumulator: counts, non-trivial set, class histogram, samples, failures
* `run_cases` drive an oracle over an iterable of inputs (bounded-exhaustive engines)
* `run_hyp`   drive an oracle with Hypothesis (seeded, shrinking, bucket-and-continue)
* `pmap`      16-way process pool over (module, function, args) tasks returning Acc exports
* `Check`     top-level object of one check run: replay tier, known findings, evidence, exit code

Oracle convention: `oracle(inp) -> (fail, nontrivial, classes)` where `fail` is None or a
`(signature, observed, expected)` triple of short strings, `nontrivial` a bool and `classes` an
iterable of class labels for the histogram.  `inp` is always JSON-encodable so that it can be
written to a replay file and run again through the same oracle without any library involved.
"""
import collections
import contextlib
import hashlib
import importlib
import json
import multiprocessing
import os
import signal
import sys
import time
import traceback

VERIF = os.path.dirname(os.path.dirname(os.path.abspath(__file__)))
REPO = os.path.abspath(os.environ.get("VERIF_REPO", "/repo"))
NPROC = int(os.environ.get("VERIF_NPROC", "16"))


class HarnessError(Exception):
    """Something is wrong with the machinery (never reported as a violation)."""


def setup_repo_path():
    """Make `import bibtexparser` resolve to the working tree under REPO (never a cached copy)."""
    sys.dont_write_bytecode = True
    if sys.path[0] != REPO:
        sys.path.insert(0, REPO)
    import logging

    import bibtexparser

    where = os.path.abspath(bibtexparser.__file__)
    if not where.startswith(REPO + os.sep):
        raise HarnessError(f"bibtexparser imported from {where}, expected under {REPO}")
    # The library logs a warning per failed block; logging is not an oracle.
    logging.disable(logging.CRITICAL)
    import warnings

    warnings.filterwarnings("ignore", module=r"bibtexparser(\..*)?")
    return bibtexparser


def seed_for(base_seed, *parts):
    h = hashlib.sha256(repr((int(base_seed),) + tuple(parts)).encode()).digest()
    return int.from_bytes(h[:6], "big")


def stable_hash(obj):
    s = obj if isinstance(obj, str) else json.dumps(obj, sort_keys=True, default=repr)
    return int.from_bytes(hashlib.blake2b(s.encode("utf-8", "surrogatepass"), digest_size=8).digest(), "big")


def _short(x, n=400):
    try:
        s = x if isinstance(x, str) else repr(x)
    except RecursionError:
        s = f"<{type(x).__name__} whose repr recurses infinitely>"
    return s if len(s) <= n else s[: n - 20] + f"...(+{len(s) - n + 20} chars)"


def exc_signature(e):
    """(signature, is_from_code_under_test) for an exception raised while running an oracle."""
    tb = traceback.extract_tb(e.__traceback__)
    inner = None
    for fr in tb:
        fn = os.path.abspath(fr.filename)
        if fn.startswith(REPO + os.sep):
            inner = fr
    if inner is None:
        return None
    rel = os.path.relpath(os.path.abspath(inner.filename), REPO)
    return f"exc:{type(e).__name__}@{rel}:{inner.name}"


class TimeLimit(Exception):
    pass


@contextlib.contextmanager
def time_limit(seconds):
    def handler(signum, frame):
        raise TimeLimit(f"no result after {seconds}s")

    old = signal.signal(signal.SIGALRM, handler)
    signal.alarm(int(seconds))
    try:
        yield
    finally:
        signal.alarm(0)
        signal.signal(signal.SIGALRM, old)


_POW2 = {1 << i for i in range(40)}


class Acc:
    """Accumulates what one process explored.  Mergeable, picklable via export()."""

    MAX_SAMPLES_PER_SUB = 10
    MAX_NT_SET = 3_000_000
    FAIL_BUDGET = 300  # failing cases per process after which further cases are skipped (enough evidence; a
    #                    defect that makes every later call slower or bigger must not take the machine down)

    def __init__(self, prop, known=None):
        self.prop = prop
        self.n = 0
        self.by_sub = collections.Counter()
        self.nt = set()  # hashes of distinct non-trivial cases
        self.nt_by_construction = 0  # non-trivial cases of enumerations whose cases are pairwise distinct
        self.classes = collections.Counter()
        self.samples = {}  # sub -> list
        self._nt_seen = collections.Counter()
        self.fails = {}  # (sub, sig) -> dict(count, input, observed, expected)
        self.known_hits = collections.Counter()  # finding id -> excluded failures
        self.notes = collections.Counter()
        self.known = known or []  # list of (id, predicate(sub, inp, fail) -> bool)
        self.exhaustive = {}  # sub -> description of a completely enumerated space
        self.n_fail_cases = 0

    # -- recording ---------------------------------------------------------------------------
    def record(self, sub, inp, res, distinct_by_construction=False):
        fail, nontrivial, classes = res
        self.n += 1
        self.by_sub[sub] += 1
        for c in classes:
            self.classes[c] += 1
        if nontrivial:
            if distinct_by_construction:
                self.nt_by_construction += 1
            elif len(self.nt) < self.MAX_NT_SET:
                self.nt.add(stable_hash([sub, inp]))
            self._nt_seen[sub] += 1
            k = self._nt_seen[sub]
            if k in _POW2:
                lst = self.samples.setdefault(sub, [])
                if len(lst) < 40:
                    lst.append(inp)
        if fail is not None:
            self.add_fail(sub, inp, fail)
        return fail

    def add_fail(self, sub, inp, fail):
        sig, observed, expected = fail
        for fid, pred in self.known:
            try:
                hit = pred(sub, inp, fail)
            except Exception as e:  # a predicate must never hide a failure by crashing
                raise HarnessError(f"known-finding predicate {fid} crashed: {e!r}")
            if hit:
                self.known_hits[fid] += 1
                return
        key = (sub, sig)
        size = len(json.dumps(inp, default=repr))
        cur = self.fails.get(key)
        if cur is None:
            self.fails[key] = dict(count=1, input=inp, observed=_short(observed), expected=_short(expected), size=size)
        else:
            cur["count"] += 1
            if size < cur["size"]:
                cur.update(input=inp, observed=_short(observed), expected=_short(expected), size=size)

    def run(self, sub, oracle, inp, distinct_by_construction=False):
        """Run oracle(inp), turning exceptions raised by the code under test into failures."""
        if self.n_fail_cases >= self.FAIL_BUDGET:
            self.notes["skipped-after-fail-budget"] += 1
            return None
        res = eval_oracle(self.prop, sub, oracle, inp)
        if res[0] is not None:
            self.n_fail_cases += 1
        return self.record(sub, inp, res, distinct_by_construction)

    # -- transport ---------------------------------------------------------------------------
    def export(self):
        return dict(
            n=self.n,
            by_sub=dict(self.by_sub),
            nt=self.nt,
            ntc=self.nt_by_construction,
            classes=dict(self.classes),
            samples=self.samples,
            fails=self.fails,
            known_hits=dict(self.known_hits),
            notes=dict(self.notes),
            exhaustive=self.exhaustive,
        )

    def merge(self, ex):
        self.n += ex["n"]
        self.by_sub.update(ex["by_sub"])
        self.nt |= ex["nt"]
        self.nt_by_construction += ex["ntc"]
        self.classes.update(ex["classes"])
        for sub, lst in ex["samples"].items():
            self.samples.setdefault(sub, []).extend(lst)
        for key, f in ex["fails"].items():
            cur = self.fails.get(key)
            if cur is None:
                self.fails[key] = dict(f)
            else:
                cnt = cur["count"] + f["count"]
                if f["size"] < cur["size"]:
                    cur.update(f)
                cur["count"] = cnt
        self.known_hits.update(ex["known_hits"])
        self.notes.update(ex["notes"])
        self.exhaustive.update(ex["exhaustive"])


def eval_oracle(prop, sub, oracle, inp):
    """oracle(inp) with exceptions raised by the code under test turned into a failure result;
    an exception with no frame in the code under test is a harness error."""
    try:
        return oracle(inp)
    except (HarnessError, TimeLimit, KeyboardInterrupt, MemoryError):
        raise
    except Exception as e:
        sig = exc_signature(e)
        if sig is None:
            raise HarnessError(
                f"oracle {prop}/{sub} crashed outside the code under test on input "
                f"{_short(inp, 300)}:\n{traceback.format_exc()}"
            )
        return ((sig, f"{type(e).__name__}: {e}", "no exception"), True, ("exception",))


def run_cases(acc, sub, oracle, inputs, distinct_by_construction=False):
    for inp in inputs:
        acc.run(sub, oracle, inp, distinct_by_construction)


def run_hyp(acc, sub, oracle, strategy, max_examples, seed, max_rounds=6, shrink=True, to_input=None):
    """Seeded Hypothesis search.  After a failure is found and shrunk its signature is
    recorded and excluded (counted as note 'excluded:<sig>') and the search is run again, so
    that several root causes do not hide behind each other."""
    import hypothesis
    from hypothesis import HealthCheck, Phase, given, settings

    found = set()
    state = {}
    phases = [Phase.generate, Phase.target] + ([Phase.shrink] if shrink else [])

    for rnd in range(max_rounds):
        state["last_fail"] = None

        def body(x):
            if state.get("nfail", 0) > Acc.FAIL_BUDGET:
                return  # enough failing evaluations (incl. shrinking): stop exercising the code under test
            inp = to_input(x) if to_input else x
            res = eval_oracle(acc.prop, sub, oracle, inp)
            fail = res[0]
            if fail is not None:
                state["nfail"] = state.get("nfail", 0) + 1
            if fail is not None:
                # known findings and already recorded root causes do not stop the search
                for fid, pred in acc.known:
                    if pred(sub, inp, fail):
                        acc.known_hits[fid] += 1
                        acc.record(sub, inp, (None, res[1], res[2]))
                        return
                if fail[0] in found:
                    acc.notes["excluded:" + fail[0]] += 1
                    acc.record(sub, inp, (None, res[1], res[2]))
                    return
                state["last_fail"] = (inp, fail)
                raise _Found(fail[0])
            acc.record(sub, inp, res)

        test = settings(
            max_examples=max_examples,
            deadline=None,
            database=None,
            derandomize=False,
            report_multiple_bugs=False,
            phases=phases,
            suppress_health_check=list(HealthCheck),
            print_blob=False,
        )(hypothesis.seed(seed_for(seed, sub, rnd))(given(strategy)(body)))
        try:
            test()
            return
        except _Found:
            pass
        except HarnessError:
            raise
        except BaseException as e:
            # hypothesis wraps some failures (e.g. Flaky); take what was recorded last
            if state["last_fail"] is None:
                raise HarnessError(f"hypothesis run for {acc.prop}/{sub} failed: {e!r}\n{traceback.format_exc()}")
        inp, fail = state["last_fail"]
        found.add(fail[0])
        acc.n += 1
        acc.by_sub[sub] += 1
        acc.add_fail(sub, inp, fail)
        if state.get("nfail", 0) > Acc.FAIL_BUDGET:
            acc.notes["hyp-stopped-after-fail-budget:" + sub] += 1
            return
    acc.notes["hyp_rounds_exhausted:" + sub] += 1


class _Found(Exception):
    pass


# -- process pool -------------------------------------------------------------------------------

_KNOWN_CACHE = {}


def _known_for(prop):
    """[(finding id, predicate)] for findings of status 'known' touching `prop`."""
    if prop in _KNOWN_CACHE:
        return _KNOWN_CACHE[prop]
    out = []
    for rec in load_known_findings():
        if rec["status"] != "known":
            continue
        if rec["property"] != prop and prop not in rec.get("also_affects", []):
            continue
        modname, fn = rec["match"].split(":")
        mod = importlib.import_module(modname)
        out.append((rec["id"], getattr(mod, fn)))
    _KNOWN_CACHE[prop] = out
    return out


def load_known_findings():
    path = os.path.join(VERIF, "known_findings.json")
    with open(path) as f:
        return json.load(f)["findings"]


def _worker(task):
    prop, modname, fn, args = task
    try:
        setup_repo_path()
        mod = importlib.import_module(modname)
        acc = Acc(prop, known=_known_for(prop))
        getattr(mod, fn)(acc, *args)
        return acc.export()
    except BaseException:
        return dict(harness_error=f"task {modname}.{fn}{_short(args, 200)}:\n{traceback.format_exc()}")


def pmap(acc, modname, tasks, nproc=None, deadline_s=None):
    """tasks: list of (function name, args tuple).  Results are merged into acc.  A wall-clock ceiling
    (VERIF_DEADLINE_S, default 25 min quick / 5 h thorough) ends the run: what finished is kept; if
    nothing failed the run is inconclusive (harness error, exit 2), never a violation."""
    nproc = nproc or NPROC
    if deadline_s is None:
        deadline_s = float(os.environ.get("VERIF_DEADLINE_S") or (18000 if os.environ.get("_VERIF_TIER") == "thorough" else 1500))
    full = [(acc.prop, modname, fn, args) for fn, args in tasks]
    results = []
    timed_out = 0
    if nproc <= 1 or len(full) <= 1:
        results = list(map(_worker, full))
    else:
        ctx = multiprocessing.get_context("fork")
        pool = ctx.Pool(min(nproc, len(full)), maxtasksperchild=None)
        t_end = time.time() + deadline_s
        try:
            pending = [pool.apply_async(_worker, (t,)) for t in full]
            for r in pending:
                left = t_end - time.time()
                try:
                    results.append(r.get(timeout=max(0.01, left)))
                except multiprocessing.TimeoutError:
                    timed_out += 1
        finally:
            pool.terminate()
            pool.join()
    for ex in results:
        if "harness_error" in ex:
            raise HarnessError(ex["harness_error"])
        acc.merge(ex)
    if timed_out:
        acc.notes["tasks-timed-out"] += timed_out
        if not acc.fails:
            raise HarnessError(f"{acc.prop}: {timed_out} of {len(full)} tasks did not finish within {deadline_s:.0f}s: inconclusive")


def chunks(n_total, n_chunks):
    """Index ranges [(lo, hi)] splitting range(n_total) into about n_chunks pieces."""
    n_chunks = max(1, min(n_chunks, n_total))
    step = -(-n_total // n_chunks)
    return [(lo, min(n_total, lo + step)) for lo in range(0, n_total, step)]


# -- one check run ------------------------------------------------------------------------------


class Check:
    def __init__(self, prop, tier, seed):
        self.prop = prop
        self.tier = tier
        self.seed = seed
        self.t0 = time.time()
        self.acc = Acc(prop, known=_known_for(prop))
        self.extra = {}
        self.assumptions = []
        self.rule = ""
        self.required_classes = []
        self.known_lines = []
        self.replayed = 0

    # replay tier -------------------------------------------------------------------------------
    def replay_dir(self):
        return os.path.join(VERIF, "replays", self.prop)

    def run_replays(self, subs):
        """Run every committed replay file and every known/fixed witness through the plain oracle."""
        d = self.replay_dir()
        files = sorted(os.listdir(d)) if os.path.isdir(d) else []
        for fn in files:
            if not fn.endswith(".json"):
                continue
            with open(os.path.join(d, fn)) as f:
                rec = json.load(f)
            self._replay_one(subs, rec["sub"], rec["input"], origin="replays/" + fn)
        for rec in load_known_findings():
            if rec["property"] != self.prop:
                continue
            w = rec.get("witness")
            if not w:
                continue
            if rec["status"] == "fixed":
                self._replay_one(subs, w["sub"], w["input"], origin="fixed:" + rec["id"])
            else:
                fail = self._oracle_fail(subs, w["sub"], w["input"])
                self.replayed += 1
                if fail is not None:
                    line = f"KNOWN-FINDING: property={self.prop} {rec['id']} {rec['what']}"
                    print(line, flush=True)
                    self.known_lines.append(line)
                else:
                    print(f"note: known finding {rec['id']} no longer reproduces on its witness", flush=True)

    def _oracle_fail(self, subs, sub, inp):
        if sub not in subs:
            raise HarnessError(f"unknown sub-check {sub!r} in replay for {self.prop}")
        tmp = Acc(self.prop)
        tmp.run(sub, subs[sub], inp)
        for f in tmp.fails.values():
            return (f, )
        return None

    def _replay_one(self, subs, sub, inp, origin):
        self.replayed += 1
        if sub not in subs:
            raise HarnessError(f"unknown sub-check {sub!r} in replay {origin}")
        self.acc.run("replay:" + sub, subs[sub], inp)

    # finishing -----------------------------------------------------------------------------------
    def finish(self):
        acc = self.acc
        wall = time.time() - self.t0
        missing = [c for c in self.required_classes if acc.classes.get(c, 0) == 0]
        if missing and not acc.fails:
            raise HarnessError(f"{self.prop}: generator classes never produced: {missing}")
        # sensitivity runs (VERIF_REPO set) may redirect their output so that they never touch the real evidence
        evdir = os.path.join(VERIF, "evidence")
        if os.environ.get("VERIF_REPO") and os.environ.get("VERIF_EVIDENCE_DIR"):
            evdir = os.environ["VERIF_EVIDENCE_DIR"]
        os.makedirs(os.path.join(evdir, "replay"), exist_ok=True)
        viol_lines = []
        for i, ((sub, sig), f) in enumerate(sorted(acc.fails.items(), key=lambda kv: (kv[0][0], kv[0][1]))):
            sub_clean = sub.split(":", 1)[1] if sub.startswith("replay:") else sub
            path = os.path.join(evdir, "replay", f"{self.prop}-{i}.json")
            with open(path, "w") as fh:
                json.dump(
                    dict(property=self.prop, sub=sub_clean, signature=sig, input=f["input"],
                         observed=f["observed"], expected=f["expected"], count=f["count"]),
                    fh, indent=1, ensure_ascii=True, default=repr,
                )
            viol_lines.append(
                f"VIOLATION property={self.prop} replay={path}\n"
                f"    sub-check={sub} signature={sig} failing-cases={f['count']}\n"
                f"    input={_short(json.dumps(f['input'], default=repr), 500)}\n"
                f"    observed={f['observed']}\n    expected={f['expected']}"
            )
        samples = []
        for sub in sorted(acc.samples):
            lst = acc.samples[sub]
            # spread: first, some middle, last of what was kept
            if len(lst) > acc.MAX_SAMPLES_PER_SUB:
                idx = sorted({round(i * (len(lst) - 1) / (acc.MAX_SAMPLES_PER_SUB - 1)) for i in range(acc.MAX_SAMPLES_PER_SUB)})
                lst = [lst[i] for i in idx]
            for s in lst:
                samples.append({"sub": sub, "case": s})
        distinct_nt = len(acc.nt) + acc.nt_by_construction
        coverage = dict(
            evaluations=acc.n,
            distinct_nontrivial=distinct_nt,
            rule=self.rule,
            samples=samples,
            exhaustive=bool(acc.exhaustive) and self.extra.get("all_exhaustive", False),
            exhaustive_parts=acc.exhaustive,
            per_subcheck=dict(acc.by_sub),
            classes=dict(sorted(acc.classes.items())),
            excluded_by_known_finding=dict(acc.known_hits),
            notes=dict(acc.notes),
            replayed_inputs=self.replayed,
            known_finding_lines=self.known_lines,
        )
        coverage.update(self.extra)
        ev = dict(
            property_id=self.prop,
            tier=self.tier,
            seed=self.seed,
            level="exploration",
            coverage=coverage,
            assumptions=self.assumptions,
            wall_s=round(wall, 2),
            violations=len(acc.fails),
            repo=REPO,
        )
        with open(os.path.join(evdir, f"{self.prop}.json"), "w") as fh:
            json.dump(ev, fh, indent=1, ensure_ascii=True, default=repr)
        for line in viol_lines:
            print(line, flush=True)
        print(
            f"{self.prop} tier={self.tier} seed={self.seed}: evaluations={acc.n} "
            f"distinct_nontrivial={distinct_nt} violations={len(acc.fails)} "
            f"known_excluded={sum(acc.known_hits.values())} wall={wall:.1f}s",
            flush=True,
        )
        return 1 if acc.fails else 0
