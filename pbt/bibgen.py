"""The dialect grammar of DESIGN.md 3.2 as a generator with constructive ground truth.

A *derivation* is a JSON list of items; `render(derivation)` assembles the text and, at the same
time, the expected structure (kinds, keys, verbatim values, offsets, lines).  Nothing in the
expected structure comes from running the splitter.

Items
  {"k":"entry","type","hws","ws1","key","ws2","fields":[FIELD...],"comma":bool,"ws_end"}
      text: @type hws { ws1 key ws2 [, FIELD (, FIELD)* [,]] ws_end }
      FIELD = {"wa","key","wb","wc","value","wd"}      text: wa key wb = wc value wd
  {"k":"string","kw","hws","ws1","key","ws2","ws3","value","ws4"}   text: @kw hws { ws1 key ws2 = ws3 value ws4 }
  {"k":"preamble","kw","hws","body"}   {"k":"comment","kw","hws","body"}     text: @kw hws { body }
  {"k":"text","body"}                   free text (implicit comment)
  {"k":"gap","ws"}                      whitespace between items
`value` is the complete value text (pieces joined by '#'), already satisfying the two lexical
side conditions (block-opener rule, escape rule).
"""
import re

OPENER = re.compile(r"@\w*[ \t]*\{")


def fix_openers(s):
    """Block-opener rule, enforced constructively: put a '.' before the '{' of every occurrence
    of '@' \\w* [ \\t]* '{' (to a fixpoint)."""
    while True:
        m = OPENER.search(s)
        if not m:
            return s
        s = s[: m.end() - 1] + "." + s[m.end() - 1 :]


def line_of(text, pos):
    return text.count("\n", 0, pos)


def render(deriv):
    """-> (text, expected) with expected = list of dicts, one per block the splitter must return."""
    out = []
    pos = 0
    expected = []

    def emit(s):
        nonlocal pos
        out.append(s)
        pos += len(s)

    for it in deriv:
        k = it["k"]
        if k == "gap":
            emit(it["ws"])
        elif k == "text":
            body = it["body"]
            lead = len(body) - len(body.lstrip())
            start = pos + lead
            emit(body)
            expected.append({"kind": "icomment", "comment": body.strip(), "start": start, "end": start + len(body.strip())})
        elif k == "entry":
            start = pos
            emit("@" + it["type"] + it["hws"] + "{" + it["ws1"] + it["key"] + it["ws2"])
            fields = []
            if it["fields"] or it["comma"]:
                emit(",")
                for i, f in enumerate(it["fields"]):
                    if i:
                        emit(",")
                    emit(f["wa"])
                    key_pos = pos
                    emit(f["key"] + f["wb"])
                    eq_pos = pos
                    emit("=" + f["wc"] + f["value"] + f["wd"])
                    fields.append({"key": f["key"], "value": f["value"].strip(), "key_pos": key_pos, "eq_pos": eq_pos})
                if it["fields"] and it["comma"]:
                    emit(",")
            emit(it["ws_end"] + "}")
            expected.append({"kind": "entry", "type": it["type"].lower(), "key": it["key"], "fields": fields, "start": start, "end": pos})
        elif k == "string":
            start = pos
            emit("@" + it["kw"] + it["hws"] + "{" + it["ws1"] + it["key"] + it["ws2"] + "=" + it["ws3"] + it["value"] + it["ws4"] + "}")
            expected.append({"kind": "string", "key": it["key"], "value": it["value"].strip(), "start": start, "end": pos})
        elif k == "preamble":
            start = pos
            emit("@" + it["kw"] + it["hws"] + "{" + it["body"] + "}")
            expected.append({"kind": "preamble", "value": it["body"].strip(), "start": start, "end": pos})
        elif k == "comment":
            start = pos
            emit("@" + it["kw"] + it["hws"] + "{" + it["body"] + "}")
            expected.append({"kind": "ecomment", "comment": it["body"].strip(), "start": start, "end": pos})
        else:
            raise ValueError(k)
    text = "".join(out)
    for e in expected:
        e["line"] = line_of(text, e["start"])
        for f in e.get("fields", []):
            f["key_line"] = line_of(text, f["key_pos"])
            f["eq_line"] = line_of(text, f["eq_pos"])
    return text, expected


def features(deriv):
    """Class labels of a derivation (for the evidence histograms and the non-triviality rules)."""
    feats = set()
    kinds = [it["k"] for it in deriv if it["k"] != "gap"]
    if len(kinds) >= 3 and len(set(kinds)) >= 2:
        feats.add(">=3items/>=2kinds")
    prev = None
    for it in deriv:
        k = it["k"]
        if k == "gap":
            if "\r\n" in it["ws"]:
                feats.add("crlf")
            if prev in ("entry", "string", "preamble", "comment") and "\n" not in it["ws"]:
                feats.add("maybe-shared-line")
            continue
        if k == "text":
            feats.add("free-text")
        vals = []
        if k == "entry":
            vals = [f["value"] for f in it["fields"]]
            if not it["fields"]:
                feats.add("zero-fields")
            if it["comma"] and it["fields"]:
                feats.add("trailing-comma")
            if it["hws"]:
                feats.add("space-before-brace")
        elif k == "string":
            vals = [it["value"]]
        elif k in ("preamble", "comment"):
            vals = [it["body"]]
        for v in vals:
            if "#" in re.sub(r"\{.*\}|\".*\"", "", v, flags=re.S):
                feats.add("concatenation")
            if re.search(r"\{[^{}]*\{", v):
                feats.add("nested-braces")
            if re.search(r"\{[^{}]*\"", v):
                feats.add("quote-in-brace")
            if re.search(r"^\s*\"[^\"]*\{", v) or re.search(r"#\s*\"[^\"]*\{", v):
                feats.add("brace-in-quote")
            if re.search(r"\"[^\"{}]*\{[^{}]*\"[^{}]*\}", v):
                feats.add("quote-in-brace-in-quote")
            if re.search(r"\\[{}\",=]", v):
                feats.add("escaped-delimiter")
            if re.search(r"\{[^{}]*[=,@]", v):
                feats.add("delim-inside-braces")
            if "\n" in v:
                feats.add("multi-line-value")
            if "\\\n" in v or "\\\r\n" in v:
                feats.add("backslash-newline")
        prev = k
    return feats


# ---------------------------------------------------------------------------------------------
# Hypothesis strategies
# ---------------------------------------------------------------------------------------------

PLAIN = list("abcXYZ019") + ["é", "ü", "凯", "ß"]
PUNCT = list(".;:!?()[]-+*/<>|_&%#~'@$^")
BLANK = [" ", " ", "  ", "\t", "\n", "\r\n", "\n  "]
ESCAPES = ["\\{", "\\}", '\\"', "\\,", "\\=", "\\'e", "\\&", "\\%", "\\#", "\\_", "\\ ", "\\\\ ", "\\\\a", "\\\\\n", "\\@", "\\`a", "\\~n",
           # escape rule: a delimiter directly after a backslash is literal, also after a backslash pair
           "\\\\}", "\\\\{", '\\\\"', "\\\\,", "\\\n"]
DELIMS = set('{}",=')


class Src:
    """Deterministic decoder input: a list of small ints; 0 (the simplest choice) when exhausted."""

    def __init__(self, ints):
        self.ints = ints
        self.i = 0

    def next(self):
        if self.i < len(self.ints):
            v = self.ints[self.i]
            self.i += 1
            return v
        return 0

    def below(self, n):
        return self.next() % n

    def pick(self, seq):
        return seq[self.next() % len(seq)]


HWS = ["", "", "", " ", "\t", "  "]
# "surrounding whitespace" is what str.strip()/str.isspace() call whitespace: a few non-ASCII / control blanks are included
WS_ANY = ["", "", " ", " ", "\n", "\n  ", "  \n\t", "\r\n", "\n\n", "", " ", "\n", "\xa0", "\u3000 ", " \x0b", "\x0c\n", "\x85", "\u2028"]
WS_SMALL = ["", "", " ", "\n", "\t", "", " ", "\xa0", "\u3000", "\x0c"]
IDENTS = ["s", "jan", "t", "S", "acm", "x_1", "abc", "Xy", "j-cacm", "pub:ACM"]
NUMBERS = ["1", "2000", "007", "42", "0"]
FKEYS = ["title", "author", "year", "Title", "x-y", "a_b", "month", "note", "a", "b", "c", "d", "e"]
ETYPES = ["article", "Article", "BOOK", "misc", "inproceedings", "a", "x_1", "strin", "comm", "Préface", "ſtring", "ﬆring", "ſtrings"]
KEYCH = "abcXYZ019_:.+/-éü凯"
TEXT_LINES = ["% a comment", "free text, with = and { and }", "e-mail me@example.org", "x", "\"quoted\" #", "@ alone", "}{", "é 凯", "a \\ b", "@notablock", "a\x85b", "x\u2028y", "p\x0cq", "v\x1cw \x0b"]
TOK_CLASSES_BRACED = [PLAIN, PLAIN, PUNCT, BLANK, ESCAPES, [",", "=", '"']]
TOK_CLASSES_QUOTED = [PLAIN, PLAIN, PUNCT, BLANK, ESCAPES, [",", "="]]


def _join_safe(parts):
    """Concatenate tokens; a *structural* delimiter (the braces of a nested group, the closing delimiter
    of the region) is never directly preceded by a backslash (escape rule of the dialect)."""
    out = ""
    for p in parts:
        if out.endswith("\\") and len(p) > 1 and p[0] == "{" and p[-1] == "}":
            out += " "
        out += p
    if out.endswith("\\"):
        out += " "
    return out


def gen_braced(src, depth):
    n = src.below(7)
    parts = []
    for _ in range(n):
        if depth > 1 and src.below(5) == 4:
            parts.append(gen_braced(src, depth - 1))
        else:
            parts.append(src.pick(src.pick(TOK_CLASSES_BRACED)))
    return "{" + _join_safe(parts) + "}"


def gen_quoted(src, depth):
    n = src.below(7)
    parts = []
    for _ in range(n):
        if depth > 0 and src.below(4) == 3:
            parts.append(gen_braced(src, depth))
        else:
            parts.append(src.pick(src.pick(TOK_CLASSES_QUOTED)))
    return '"' + _join_safe(parts) + '"'


def gen_value(src, max_depth=4, extra=None):
    if extra is not None and src.below(3) == 2:
        return fix_openers(src.pick(extra))
    depth = 1 + src.below(max_depth)
    n = 1 if src.below(4) else 2 + src.below(3)
    pieces = []
    for _ in range(n):
        kind = src.below(10)
        if kind <= 4:
            pieces.append(gen_braced(src, depth))
        elif kind <= 7:
            pieces.append(gen_quoted(src, depth - 1))
        elif kind == 8:
            pieces.append(src.pick(NUMBERS))
        else:
            pieces.append(src.pick(IDENTS))
    out = pieces[0]
    for p in pieces[1:]:
        out += src.pick([" # ", "#", " #\n ", "  #  "]) + p
    return fix_openers(out)


def gen_document(ints, key_pool=None, string_keys=None, value_extra=None, max_items=12, max_depth=4, fkey_pool=None):
    """Decode a list of ints into a derivation.

    key_pool: None -> unique entry keys are generated; list -> keys drawn from the pool (collisions).
    string_keys: pool for @string identifiers (None: unique identifiers).
    value_extra: optional list of additional complete value texts (e.g. bare references).
    fkey_pool: optional pool for field keys (collisions allowed); None: unique field keys per entry.
    """
    src = Src(ints)
    n = src.below(max_items + 1)
    items = [{"k": "gap", "ws": src.pick(WS_ANY)}]
    used_keys = set()
    used_skeys = set()
    prev_text = False
    for counter in range(n):
        kind = src.pick(["entry", "entry", "entry", "string", "preamble", "comment", "text"])
        if kind == "text" and prev_text:
            kind = "entry"
        if kind == "entry":
            if key_pool is None:
                key = "".join(src.pick(KEYCH) for _ in range(1 + src.below(6)))
                if used_keys and src.below(6) == 5:
                    # a key that differs from an earlier one only in letter case is a different key
                    prev = sorted(used_keys)[src.below(len(used_keys))]
                    if prev.swapcase() != prev:
                        key = prev.swapcase()
                while key in used_keys:
                    key += str(counter)
                used_keys.add(key)
            else:
                key = src.pick(key_pool)
            nf = src.pick([1, 0, 1, 2, 2, 3, 4, 6])
            used = set()
            fields = []
            for _ in range(nf):
                if fkey_pool is None:
                    k = src.pick(FKEYS)
                    while k in used:
                        k += src.pick("abcdefgh")
                    used.add(k)
                else:
                    k = src.pick(fkey_pool)
                fields.append({"wa": src.pick(WS_ANY), "key": k, "wb": src.pick(["", " ", " ", "  ", "\t"]), "wc": src.pick(WS_ANY),
                               "value": gen_value(src, max_depth, value_extra), "wd": src.pick(WS_ANY)})
            it = {"k": "entry", "type": src.pick(ETYPES), "hws": src.pick(HWS), "ws1": src.pick(WS_SMALL), "key": key, "ws2": src.pick(WS_SMALL),
                  "fields": fields, "comma": src.below(3) == 0, "ws_end": src.pick(WS_ANY)}
            if not fields and not it["comma"]:
                it["ws_end"] = ""
            items.append(it)
        elif kind == "string":
            if string_keys is None:
                sk = src.pick(IDENTS)
                while sk in used_skeys:
                    sk += "x"
                used_skeys.add(sk)
            else:
                sk = src.pick(string_keys)
            items.append({"k": "string", "kw": src.pick(["string", "String", "STRING", "sTrInG"]), "hws": src.pick(HWS), "ws1": src.pick(WS_SMALL),
                          "key": sk, "ws2": src.pick(WS_SMALL), "ws3": src.pick(WS_SMALL), "value": gen_value(src, max_depth), "ws4": src.pick(WS_SMALL)})
        elif kind == "preamble":
            body = fix_openers(gen_braced(src, 1 + src.below(max_depth))[1:-1])
            items.append({"k": "preamble", "kw": src.pick(["preamble", "Preamble", "PREAMBLE"]), "hws": src.pick(HWS), "body": body})
        elif kind == "comment":
            body = fix_openers(gen_braced(src, 1 + src.below(max_depth))[1:-1])
            items.append({"k": "comment", "kw": src.pick(["comment", "Comment", "COMMENT"]), "hws": src.pick(HWS), "body": body})
        else:
            lines = [src.pick(TEXT_LINES) for _ in range(1 + src.below(3))]
            items.append({"k": "text", "body": fix_openers(src.pick(["\n", "\n", "\r\n", "\n\n"]).join(lines))})
        prev_text = kind == "text"
        items.append({"k": "gap", "ws": src.pick(WS_ANY)})
    return items


def large_document(n, dup_every=0, string_every=50, fields_per_entry=2, ref=None):
    """A derivation with n entries (unique keys unless dup_every > 0), a @string / comment every `string_every`
    entries - for size boundaries (caches, chunking, recursion) that small documents cannot reach."""
    items = [{"k": "gap", "ws": ""}]
    for i in range(n):
        if string_every and i % string_every == 0:
            items.append({"k": "string", "kw": "string", "hws": "", "ws1": "", "key": "s%d" % i, "ws2": " ", "ws3": " ", "value": '"S%d"' % i, "ws4": ""})
            items.append({"k": "gap", "ws": "\n"})
            items.append({"k": "comment", "kw": "comment", "hws": "", "body": "c%d" % i})
            items.append({"k": "gap", "ws": "\n"})
        key = "k%d" % (i if not dup_every or i % dup_every else 0)
        fields = []
        for j in range(fields_per_entry):
            v = "{value %d.%d {nested}}" % (i, j) if j % 2 == 0 else '"v%d" # %s' % (i, ref or "x")
            if ref is not None and j == 1 and i % 3 == 0:
                v = ref
            fields.append({"wa": "\n  ", "key": "f%d" % j, "wb": " ", "wc": " ", "value": v, "wd": ""})
        items.append({"k": "entry", "type": "article", "hws": "", "ws1": "", "key": key, "ws2": "", "fields": fields, "comma": i % 2 == 0, "ws_end": "\n"})
        items.append({"k": "gap", "ws": "\n\n" if i % 7 else "\n% free text %d\n" % i if False else "\n\n"})
    return items


def strategies(max_ints=400, **opts):
    """Hypothesis strategy for derivations: a list of small ints decoded by gen_document (cheap to
    generate, shrinks towards fewer items / simpler choices)."""
    from hypothesis import strategies as st

    return st.lists(st.integers(0, 255), min_size=20, max_size=max_ints).map(lambda ints: gen_document(ints, **opts))


def damage(text, draw_int, n_ops=1):
    """Random single-token corruptions of a document (used for malformed inputs)."""
    toks = ["{", "}", '"', ",", "=", "\n", "@a{", "@", "\\", "#", " "]
    for _ in range(n_ops):
        if not text:
            return text
        p = draw_int(0, len(text))
        op = draw_int(0, 2)
        if op == 0:
            text = text[:p] + text[p + 1 :]
        elif op == 1:
            text = text[:p] + toks[draw_int(0, len(toks) - 1)] + text[p:]
        else:
            q = min(len(text), p + draw_int(1, 8))
            text = text[:p] + text[q:]
    return text
