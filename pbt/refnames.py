"""Independent reference implementations for C12/C13/C14, written from the property statements
(BibTeX's rules), not from names.py.  Validated on the repository's BibTeX-derived corpus
(pbt/corpus_names.json) by `validate_on_corpus()` before any check trusts them."""
import json
import os

AND_WS = " \r\n\t"  # whitespace of the `and` splitter ('~' is a regular character there)
NAME_WS = " ~\r\n\t"  # word separators inside one name


class Invalid(Exception):
    pass


# ---------------------------------------------------------------------------------------------
# C12: word-based `and` splitter
# ---------------------------------------------------------------------------------------------


def brace_balanced(s):
    """Depth never negative and 0 at the end; an escape pairs with its next character."""
    depth = 0
    i = 0
    n = len(s)
    while i < n:
        c = s[i]
        if c == "\\":
            i += 2
            continue
        if c == "{":
            depth += 1
        elif c == "}":
            depth -= 1
            if depth < 0:
                return False
        i += 1
    return depth == 0


def and_words(s):
    """Depth-0 words of s as (start, end) offsets.  Whitespace only separates words at brace
    depth 0 and when not escaped; an escape (backslash + next char) is never whitespace."""
    words = []
    depth = 0
    i = 0
    n = len(s)
    start = None
    while i < n:
        c = s[i]
        if c == "\\":
            if start is None:
                start = i
            i += 2
            continue
        if c == "{":
            depth += 1
        elif c == "}":
            if depth:
                depth -= 1
        elif depth == 0 and c in AND_WS:
            if start is not None:
                words.append((start, i))
                start = None
            i += 1
            continue
        if start is None:
            start = i
        i += 1
    if start is not None:
        words.append((start, min(i, n)))
    return words


def split_names(s):
    """Reference for split_multiple_persons_names on brace-balanced input."""
    s = s.strip(AND_WS)
    if not s:
        return []
    words = and_words(s)
    names = []
    cur = []  # words of the current name
    for k, (a, b) in enumerate(words):
        w = s[a:b]
        is_and = len(w) == 3 and w.lower() == "and"
        if is_and and cur and k + 1 < len(words):
            names.append((cur[0][0], cur[-1][1]))
            cur = []
        else:
            cur.append((a, b))
    if cur:
        names.append((cur[0][0], cur[-1][1]))
    return [s[a:b] for a, b in names]


# ---------------------------------------------------------------------------------------------
# C13: BibTeX name partition
# ---------------------------------------------------------------------------------------------


def tokenize_name(name):
    """-> list of comma sections, each a list of words (strings).  Raises Invalid."""
    sections = [[]]
    word = []
    depth = 0
    commas = 0
    i = 0
    n = len(name)

    def end_word():
        if word:
            sections[-1].append("".join(word))
            del word[:]

    while i < n:
        c = name[i]
        if c == "\\":
            if i + 1 < n and name[i + 1] not in NAME_WS:
                word.append(c)
                word.append(name[i + 1])
                i += 2
                continue
            # a backslash before whitespace or at the very end is an ordinary character
            word.append(c)
            i += 1
            continue
        if c == "{":
            depth += 1
            word.append(c)
        elif c == "}":
            if depth == 0:
                raise Invalid("unmatched closing brace")
            depth -= 1
            word.append(c)
        elif depth > 0:
            word.append(c)
        elif c == ",":
            end_word()
            commas += 1
            if commas > 2:
                raise Invalid("too many commas")
            sections.append([])
        elif c in NAME_WS:
            end_word()
        else:
            word.append(c)
        i += 1
    if depth:
        raise Invalid("unterminated brace")
    end_word()
    if commas and not sections[-1]:
        raise Invalid("trailing comma")
    return sections


LOWER, UPPER, CASELESS, UNSPEC = 0, 1, -1, None


def word_case(w):
    """Case of a word: its first letter at brace depth 0, or - inside a special character
    `{\\...}` opened at depth 0 - the first letter after the control sequence.  UNSPEC when the
    statement does not settle it (special-character look-alikes nested in ordinary groups,
    nested braces inside a special character, backslash+letter inside an ordinary group)."""
    i = 0
    n = len(w)
    while i < n:
        c = w[i]
        if c == "\\":
            if i + 1 < n:
                e = w[i + 1]
                if e.isalpha():
                    return UPPER if e.isupper() else LOWER
                i += 2
                continue
            i += 1
            continue
        if c == "{":
            if i + 1 < n and w[i + 1] == "\\":
                # special character
                j = i + 2
                if j < n and w[j] in NAME_WS:
                    return UNSPEC  # '{\\ ' : BibTeX does not allow whitespace escaping; not defined by the statement
                if j < n and w[j].isalpha():
                    while j < n and w[j].isalpha():
                        j += 1
                    # the character ending the control sequence is not looked at for the case
                    if j < n and w[j] == "\\":
                        return UNSPEC  # a second control sequence inside the special character: not defined by the statement
                    if j < n and w[j] not in "{}":
                        j += 1
                elif j < n:
                    j += 1
                while j < n and w[j] != "}":
                    ch = w[j]
                    if ch == "{":
                        return UNSPEC
                    if ch == "\\":
                        if j + 1 < n and w[j + 1].isalpha():
                            return UNSPEC
                        j += 2
                        continue
                    if ch.isalpha():
                        return UPPER if ch.isupper() else LOWER
                    j += 1
                i = j + 1
                continue
            # ordinary group: carries no case; skip to its matching brace
            depth = 1
            j = i + 1
            while j < n and depth:
                ch = w[j]
                if ch == "\\":
                    if j + 1 < n and w[j + 1].isalpha():
                        return UNSPEC
                    j += 2
                    continue
                if ch == "{":
                    if j + 1 < n and w[j + 1] == "\\":
                        return UNSPEC
                    depth += 1
                elif ch == "}":
                    depth -= 1
                j += 1
            i = j
            continue
        if c.isalpha():
            return UPPER if c.isupper() else LOWER
        i += 1
    return CASELESS


def parse_name(name):
    """-> dict(first, von, last, jr) lists, or raises Invalid; returns None when a word whose
    case decides the partition has an unspecified case."""
    sections = tokenize_name(name)
    if not any(sections):
        return dict(first=[], von=[], last=[], jr=[])
    if len(sections) == 1:
        ws = sections[0]
        if len(ws) == 1:
            return dict(first=[], von=[], last=ws, jr=[])
        if len(ws) == 2:
            return dict(first=ws[:1], von=[], last=ws[1:], jr=[])
        cases = [word_case(w) for w in ws[:-1]]
        if UNSPEC in cases:
            return None
        lows = [k for k, c in enumerate(cases) if c == LOWER]
        if not lows:
            return dict(first=ws[:-1], von=[], last=ws[-1:], jr=[])
        i, j = lows[0], lows[-1]
        return dict(first=ws[:i], von=ws[i : j + 1], last=ws[j + 1 :], jr=[])
    s0 = sections[0]
    first = sections[-1]
    jr = sections[1] if len(sections) == 3 else []
    if len(s0) <= 1:
        return dict(first=first, von=[], last=s0, jr=jr)
    cases = [word_case(w) for w in s0[:-1]]
    if UNSPEC in cases:
        return None
    lows = [k for k, c in enumerate(cases) if c == LOWER]
    if not lows:
        return dict(first=first, von=[], last=s0, jr=jr)
    j = lows[-1]
    return dict(first=first, von=s0[: j + 1], last=s0[j + 1 :], jr=jr)


# ---------------------------------------------------------------------------------------------


def validate_on_corpus():
    """Returns a list of disagreements between the references and the repository's own
    BibTeX-derived expectations (must be empty, otherwise the harness is broken)."""
    with open(os.path.join(os.path.dirname(__file__), "corpus_names.json")) as f:
        corpus = json.load(f)
    bad = []
    for value, exp in corpus["split"]:
        if brace_balanced(value):
            got = split_names(value)
            if got != exp:
                bad.append(("split", value, got, exp))
    for name, _reason in corpus["strict_invalid"]:
        try:
            parse_name(name)
            bad.append(("strict", name, "valid", "invalid"))
        except Invalid:
            pass
    for name, exp in corpus["regular"]:
        try:
            got = parse_name(name)
        except Invalid as e:
            bad.append(("regular", name, "invalid: %s" % e, exp))
            continue
        if got is None:
            continue
        if got != {k: list(exp.get(k, [])) for k in ("first", "von", "last", "jr")}:
            bad.append(("regular", name, got, exp))
    return bad


if __name__ == "__main__":
    for b in validate_on_corpus():
        print(b)
