"""Comparison of splitter output with expected records (bibgen.render / refparse), and the
tiling / line oracles of C03."""
from bibtexparser.model import (
    DuplicateBlockKeyBlock,
    DuplicateFieldKeyBlock,
    Entry,
    ExplicitComment,
    ImplicitComment,
    ParsingFailedBlock,
    Preamble,
    String,
)

KIND_CLASS = {"entry": Entry, "string": String, "preamble": Preamble, "ecomment": ExplicitComment, "icomment": ImplicitComment}


def describe_block(b):
    n = type(b).__name__
    if isinstance(b, Entry):
        return f"Entry({b.entry_type!r}, {b.key!r}, {[(f.key, f.value) for f in b.fields]!r})"
    if isinstance(b, String):
        return f"String({b.key!r}, {b.value!r})"
    if isinstance(b, Preamble):
        return f"Preamble({b.value!r})"
    if isinstance(b, (ExplicitComment, ImplicitComment)):
        return f"{n}({b.comment!r})"
    if isinstance(b, ParsingFailedBlock):
        return f"{n}(raw={b.raw!r}, error={getattr(b.error, 'abort_reason', b.error)!r})"
    return n


def block_matches(b, e):
    """None if block b is what record e describes, else a short clause name."""
    cls = KIND_CLASS[e["kind"]]
    if type(b) is not cls:
        return "class"
    k = e["kind"]
    if k == "entry":
        if b.entry_type != e["type"]:
            return "entry-type"
        if b.key != e["key"]:
            return "entry-key"
        got = [(f.key, f.value.strip() if isinstance(f.value, str) else f.value) for f in b.fields]
        exp = [(f["key"], f["value"]) if isinstance(f, dict) else tuple(f) for f in e["fields"]]
        if got != exp:
            return "fields"
    elif k == "string":
        if b.key != e["key"]:
            return "string-key"
        if not isinstance(b.value, str) or b.value.strip() != e["value"]:
            return "string-value"
    elif k == "preamble":
        if not isinstance(b.value, str) or b.value.strip() != e["value"]:
            return "preamble-value"
    else:
        if not isinstance(b.comment, str) or b.comment.strip() != e["comment"]:
            return "comment-text"
    return None


def compare_blocks(blocks, expected, where=""):
    """-> None or (signature, observed, expected)."""
    if len(blocks) != len(expected) or any(isinstance(b, ParsingFailedBlock) for b in blocks):
        nfail = sum(isinstance(b, ParsingFailedBlock) for b in blocks)
        sig = "failed-block" if nfail else "block-count"
        return (f"{sig}{where}", repr([describe_block(b) for b in blocks]), repr([_rec(e) for e in expected]))
    for i, (b, e) in enumerate(zip(blocks, expected)):
        c = block_matches(b, e)
        if c:
            return (f"{c}{where}", f"block {i}: {describe_block(b)}", repr(_rec(e)))
    return None


def _rec(e):
    d = {k: v for k, v in e.items() if k not in ("start", "end", "line")}
    if "fields" in d:
        d["fields"] = [(f["key"], f["value"]) if isinstance(f, dict) else tuple(f) for f in d["fields"]]
    return d


def tiling(text, blocks):
    """C03 sub-check 1.  -> (None, positions) or ((sig, observed, expected), None)."""
    cur = 0
    n = len(text)
    positions = []
    for i, b in enumerate(blocks):
        raw = b.raw
        if not isinstance(raw, str) or not raw:
            return (("tiling:empty-raw", f"block {i} {describe_block(b)} has raw {raw!r}", "non-empty raw"), None)
        p = cur
        while p < n and text[p].isspace():
            p += 1
        if not text.startswith(raw, p):
            return (("tiling:" + _tiling_kind(text, raw, cur, p), f"block {i} raw {raw!r} does not start at offset {p} (text there: {text[p:p + 40]!r}; cursor {cur})", "raw texts tile the input in order with only whitespace between"), None)
        positions.append(p)
        cur = p + len(raw)
    rest = text[cur:]
    if rest.strip():
        return (("tiling:dropped-tail", f"input characters {rest!r} after the last block are in no raw", "only whitespace after the last raw"), None)
    return (None, positions)


def _tiling_kind(text, raw, cur, p):
    q = text.find(raw, max(0, cur - len(raw)))
    if q == -1:
        return "raw-not-in-input"
    if q < p and q + len(raw) > cur - 0 and q < cur:
        return "overlap"
    if q > p:
        return "dropped-characters"
    return "misplaced"
