"""Reference recogniser/parser for the dialect grammar of DESIGN.md 3.2 (recursive descent on
braces and quotes; no mark regex, no shared state machine with splitter.py).

parse_document(text) -> list of records (same shape as bibgen.render's `expected`, without
offsets being required to match) or None when the text is not in the dialect.
"""
import re

OPENER = re.compile(r"@(\w*)[ \t]*\{")
WS = " \t\n\r"
KEY_RE = re.compile(r"[A-Za-z0-9_:.+/\-À-￿]+\Z")
FKEY_RE = re.compile(r"[^\W\d_][\w\-]*\Z")
# identifiers (macro names): a letter, then letters / digits / '_' and the punctuation BibTeX macro names commonly carry
# (j-cacm, pub:ACM, acm.cs)
IDENT_RE = re.compile(r"[^\W\d_][\w\-:.]*")
TYPE_RE = re.compile(r"[^\W\d_]\w*\Z")
DELIMS = '{}",='


class NotInDialect(Exception):
    pass


def _skip_ws(t, i):
    n = len(t)
    while i < n and t[i].isspace():
        i += 1
    return i


def _literal(t, i):
    """Escape rule of the dialect: a delimiter character directly preceded by a backslash is not structural."""
    return i > 0 and t[i - 1] == "\\"


def _check_no_opener(t, a, b):
    if OPENER.search(t, a, b):
        raise NotInDialect("block opener inside a region")


def _braced(t, i, allow_quote=True):
    """t[i] == '{' (structural): index after the matching structural '}'."""
    assert t[i] == "{"
    depth = 0
    n = len(t)
    while i < n:
        c = t[i]
        if c == "{" and not _literal(t, i):
            depth += 1
        elif c == "}" and not _literal(t, i):
            depth -= 1
            if depth == 0:
                return i + 1
        i += 1
    raise NotInDialect("unterminated brace")


def _quoted(t, i):
    assert t[i] == '"'
    i += 1
    n = len(t)
    while i < n:
        c = t[i]
        if c == '"' and not _literal(t, i):
            return i + 1
        if c == "{" and not _literal(t, i):
            i = _braced(t, i)
            continue
        if c == "}" and not _literal(t, i):
            raise NotInDialect("unbalanced brace in quotes")
        i += 1
    raise NotInDialect("unterminated quote")


def _value(t, i):
    """Parses piece (ws '#' ws piece)* starting at t[i]; returns index after the last piece."""
    n = len(t)
    while True:
        if i >= n:
            raise NotInDialect("value expected")
        c = t[i]
        if c in '{"' and _literal(t, i):
            raise NotInDialect("escaped delimiter where a piece must start")
        if c == "{":
            i = _braced(t, i)
        elif c == '"':
            i = _quoted(t, i)
        elif c.isdigit() and c.isascii():
            while i < n and t[i].isdigit() and t[i].isascii():
                i += 1
        else:
            m = IDENT_RE.match(t, i)
            if not m:
                raise NotInDialect("piece expected")
            i = m.end()
        j = _skip_ws(t, i)
        if j < n and t[j] == "#":
            i = _skip_ws(t, j + 1)
            continue
        return i


def _entry(t, i, etype, start):
    n = len(t)
    j = i
    while j < n and t[j] not in ",}":
        if t[j] in '{"=\\@':
            raise NotInDialect("bad key")
        j += 1
    if j >= n:
        raise NotInDialect("unterminated entry")
    key = t[i:j].strip()
    if not KEY_RE.match(key):
        raise NotInDialect("bad key")
    fields = []
    rec = {"kind": "entry", "type": etype.lower(), "key": key, "fields": fields, "start": start}
    if t[j] == "}":
        rec["end"] = j + 1
        return rec
    i = j + 1
    while True:
        i = _skip_ws(t, i)
        if i >= n:
            raise NotInDialect("unterminated entry")
        if t[i] == "}":
            rec["end"] = i + 1
            return rec
        if fields and not had_comma:
            raise NotInDialect("comma expected")
        j = i
        while j < n and t[j] not in "=" and not t[j].isspace():
            j += 1
        fkey = t[i:j]
        if not FKEY_RE.match(fkey):
            raise NotInDialect("bad field key")
        key_pos = i
        j = _skip_ws(t, j)
        if j >= n or t[j] != "=":
            raise NotInDialect("= expected")
        eq_pos = j
        v0 = _skip_ws(t, j + 1)
        v1 = _value(t, v0)
        _check_no_opener(t, v0, v1)
        fields.append({"key": fkey, "value": t[v0:v1].strip(), "key_pos": key_pos, "eq_pos": eq_pos})
        i = _skip_ws(t, v1)
        had_comma = i < n and t[i] == ","
        if had_comma:
            i += 1


def parse_document(text):
    try:
        return _document(text)
    except NotInDialect:
        return None


def _document(t):
    n = len(t)
    i = 0
    out = []
    while True:
        i = _skip_ws(t, i)
        if i >= n:
            return out
        m = OPENER.match(t, i) if t[i] == "@" else None
        if m is None:
            nxt = OPENER.search(t, i)
            end = nxt.start() if nxt else n
            body = t[i:end]
            out.append({"kind": "icomment", "comment": body.strip(), "start": i, "end": i + len(body.rstrip())})
            i = end
            continue
        word = m.group(1)
        low = word.lower()
        start = i
        body_start = m.end()
        if low == "comment" or low == "preamble":
            end = _braced(t, body_start - 1)
            _check_no_opener(t, body_start, end - 1)
            body = t[body_start : end - 1]
            if low == "comment":
                out.append({"kind": "ecomment", "comment": body.strip(), "start": start, "end": end})
            else:
                out.append({"kind": "preamble", "value": body.strip(), "start": start, "end": end})
            i = end
        elif low == "string":
            j = _skip_ws(t, body_start)
            mk = IDENT_RE.match(t, j)
            if not mk:
                raise NotInDialect("string key")
            key = mk.group(0)
            j = _skip_ws(t, mk.end())
            if j >= n or t[j] != "=":
                raise NotInDialect("= expected")
            v0 = _skip_ws(t, j + 1)
            v1 = _value(t, v0)
            _check_no_opener(t, v0, v1)
            j = _skip_ws(t, v1)
            if j >= n or t[j] != "}":
                raise NotInDialect("} expected")
            out.append({"kind": "string", "key": key, "value": t[v0:v1].strip(), "start": start, "end": j + 1})
            i = j + 1
        else:
            if low.startswith(("comment", "preamble", "string")) or not TYPE_RE.match(word):
                raise NotInDialect("bad type")
            rec = _entry(t, body_start, word, start)
            out.append(rec)
            i = rec["end"]


def strip_positions(records):
    """Comparable form without offsets."""
    out = []
    for r in records:
        d = {k: v for k, v in r.items() if k not in ("start", "end", "line")}
        if "fields" in d:
            d["fields"] = [(f["key"], f["value"]) for f in d["fields"]]
        out.append(d)
    return out
