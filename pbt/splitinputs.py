"""Input families shared by C01 / C03 / C04: token enumerations, frames, random garbage,
damaged documents, size-scaled families."""
import itertools
import re

from . import bibgen, tokens

FRAMES_S = {
    "F1": ("@a{k, f = ", ", g = {z}}\n"),
    "F2": ("@string{s = ", "}\n@a{k}"),
    "F3": ("@comment{", "}\n@a{k}"),
    "F4": ("", "\n@a{k, f = {v}}"),
    "F6": ("@a{k,\n f = {v},\n g = ", "\n}\n@b{j}"),
}

OPENER = re.compile(r"@\w*[ \t]*\{")


def sigma_s_texts(L, prefix):
    return ("".join(t) for t in tokens.seqs(tokens.SIGMA_S, L, prefix))


def frame_texts(frame, L, prefix):
    pre, post = FRAMES_S[frame]
    return (pre + "".join(t) + post for t in tokens.seqs(tokens.SIGMA_F, L, prefix))


def st_garbage():
    """Hypothesis strategy: arbitrary Unicode, mark soups, damaged well-formed documents."""
    from hypothesis import strategies as st

    marks = st.lists(st.sampled_from(tokens.SIGMA_S + ["\r\n", "\t", "@b{", "@string{", "@comment{", "@preamble{", "é", "\\\n", "%", "\x0b", "\x1c", " ", "\x85"]), max_size=40).map("".join)
    uni = st.text(max_size=60)
    uni2 = st.text(alphabet=st.characters(codec="utf-8", categories=["L", "N", "P", "S", "Z", "Cc", "Cf"]), max_size=40)

    def dmg(args):
        ints, ops = args
        # half of the documents draw their field keys from a small pool, so that entries repeating a field key get damaged too
        text, _ = bibgen.render(bibgen.gen_document(ints, fkey_pool=["a", "b", "title", "A"] if ints[0] % 2 else None))
        it = iter(ops)

        def draw_int(lo, hi):
            v = next(it, 0)
            return lo + (v % (hi - lo + 1))

        return bibgen.damage(text, draw_int, n_ops=1 + (ops[0] % 3 if ops else 0))

    damaged = st.tuples(st.lists(st.integers(0, 255), min_size=20, max_size=200), st.lists(st.integers(0, 10000), min_size=4, max_size=12)).map(dmg)
    return st.one_of(marks, marks, uni, uni2, damaged, damaged, damaged)


def scaled_families(n):
    """(name, text) pairs of size-scaled inputs (n = scale)."""
    entry = "@article{key%d,\n  title = {Some Title},\n  year = 2000\n}\n"
    fam = [
        ("blank-lines", "\n" * n),
        ("comment-lines", "% comment line\n" * n),
        ("entry+blank-lines", (entry % 1) + "\n" * n + (entry % 2)),
        ("value-with-n-lines", "@a{k, t = {" + "line of text\n" * n + "}}\n@b{j, x = 1}"),
        ("quoted-value-with-n-lines", '@a{k, t = "' + "line of text\n" * n + '"}'),
        ("free-text-n-lines", "some free text here\n" * n + (entry % 1)),
        ("comment-block-n-lines", "@comment{" + "c\n" * n + "}"),
        ("preamble-n-lines", "@preamble{" + "p\n" * n + "}"),
        ("string-n-lines", "@string{s = {" + "p\n" * n + "}}"),
        ("nested-braces", "@a{k, t = " + "{" * n + "x" + "}" * n + "}"),
        ("nested-braces-in-comment", "@comment{" + "{" * n + "x" + "}" * n + "}"),
        ("nested-unclosed", "@a{k, t = " + "{" * n),
        ("nested-braces-in-preamble", "@preamble{" + "{" * n + "x" + "}" * n + "}"),
        ("nested-braces-in-string", "@string{s = " + "{" * n + "x" + "}" * n + "}"),
        ("nested-unclosed-in-comment", "@comment{jabref-meta: " + "{" * n),
        ("nested-groups-in-quotes", '@a{k, t = "' + "{" * n + "x" + "}" * n + '"}'),
        ("n-sibling-groups", "@comment{" + "{a}" * n + "}"),
        ("n-entries", "".join(entry % i for i in range(n))),
        ("n-duplicate-entries", (entry % 7) * n),
        ("entry-with-n-fields", "@a{k,\n" + "".join("  f%d = {v},\n" % i for i in range(n)) + "}"),
        ("entry-with-n-duplicate-fields", "@a{k,\n" + "  f = {v},\n" * n + "}"),
        ("n-unterminated-openers", "@a{\n" * n),
        ("n-unterminated-openers-one-line", "@a{" * n),
        ("at-long-word", "@" + "a" * n),
        ("at-long-blank", "@a" + " " * n),
        ("at-long-blank-brace", "@a" + " " * n + "{k}"),
        ("n-quotes", '@a{k, t = ' + '"' * n + "}"),
        ("n-commas", "@a{k" + "," * n + "}"),
        ("n-equals", "@a{k, " + "=" * n + "}"),
        ("crlf-lines", "@a{k,\r\n t = {v}\r\n}\r\n" * min(n, 5000)),
        ("backslash-newlines", "@a{k, t = {" + "x \\\\\n" * n + "}}"),
        ("n-strings", "".join('@string{s%d = "v"}\n' % i for i in range(n))),
        ("failed-then-n-lines", "@a{k, = \n" + "text\n" * n),
    ] + [(name, f(n)) for name, f in LENGTH_FAMILIES]
    return fam


# names, keys and values of length n (swept over every n up to a few hundred as well: message formatting, column
# arithmetic, abbreviation of long lists and the like depend on lengths, not on sizes)
LENGTH_FAMILIES = [
    ("dup-field-key-of-length-n", lambda n: "@a{k, " + "x" * n + " = 1, " + "x" * n + " = 2}\n@b{j}"),
    ("dup-entry-key-of-length-n", lambda n: "@a{" + "k" * n + ", t = {v}}\n@a{" + "k" * n + ", t = {w}}"),
    ("dup-string-key-of-length-n", lambda n: "@string{" + "s" * n + " = 1}@string{" + "s" * n + " = 2}"),
    ("type-of-length-n", lambda n: "@" + "t" * n + "{k, t = 1}"),
    ("n-repeated-field-keys", lambda n: "@a{k, " + ", ".join("f%d = 1, f%d = 2" % (i, i) for i in range(n)) + "}"),
    ("n-aborted-blocks-in-a-row", lambda n: "".join("@article{key%d\n title = {t}\n}\n" % i for i in range(n)) + "@a{ok}"),
    ("n-aborted-strings-in-a-row", lambda n: "".join("@string{s%d\n}\ntext %d\n" % (i, i) for i in range(n)) + "@a{ok}"),
    ("value-of-length-n-then-opener", lambda n: '@a{k, f = "' + "v" * n + " {x @b{j, t = {ok}}"),
]
